/-
C15 — All decoding paths agree and incomplete input is never consumed.

The one-shot (`read`), buffered (`read_from_buffer`) and asynchronous (`read_async`) decoders
are separate definitions in the model, as they are separate functions in the code. The
theorems say they are one function of the bytes, for every input, every chunking of the source
into reads and every pattern of `Pending` (the oracle `o` is universally quantified), and that
a proper prefix of what a reader would consume is answered by "need more".
-/
import WtVerif.Lemmas.Readers
import WtVerif.Lemmas.Frame
import WtVerif.Lemmas.Worker

namespace Props.C15

/-- the I/O error an asynchronous reader reports when the source ends before the unit is
complete: `ImmediateFin` iff not a single byte was available, `UnexpectedFin` otherwise;
`Reset` / `NotConnected` when the source was reset / lost. -/
def endError (bs : Bytes) (t : Tail) : Option IoErr :=
  match t with
  | .fin => some (if bs.isEmpty then .immediateFin else .unexpectedFin)
  | .reset => some .reset
  | .lost => some .notConnected
  | .open_ => none

/-- Relation between one asynchronous run and the one-shot read of the same bytes. -/
def FrameAgree (bs : Bytes) (t : Tail) : Out FrameParseError Frame → Prop
  | .done (.ok f) s' _ => Frame.read bs = .frame f s'.rest
  | .done (.parse .unknownFrame) s' _ => Frame.read bs = .unknown s'.rest
  | .done (.parse .invalidSessionId) _ _ => Frame.read bs = .invalidSessionId
  | .done (.parse .payloadTooBig) _ _ => Frame.read bs = .payloadTooBig
  | .done (.io e) _ _ => Frame.read bs = .needMore ∧ endError bs t = some e
  | .blocked s' => ∃ c, bs = c ++ s'.rest

/-- **Frames: async = one-shot**, same value or same class of error, same number of bytes
consumed, for every byte string, end of source, chunking and `Pending` pattern. A run that
did not complete has consumed a prefix of the source and produced nothing. -/
theorem frame_async_eq_oneshot (bs : Bytes) (t : Tail) (o : List Poll) :
    FrameAgree bs t (Frame.readAsync.run ⟨bs, t⟩ o) := by
  have h := Prog.run_sound Frame.readAsync ⟨bs, t⟩ o
  generalize Frame.readAsync.run ⟨bs, t⟩ o = out at h ⊢
  cases out with
  | blocked s' =>
    simp only [ProgSpec] at h
    obtain ⟨c, hc, _⟩ := h
    exact ⟨c, hc⟩
  | done r s' o' =>
    cases r with
    | ok f =>
      simp only [ProgSpec] at h
      simp only [FrameAgree, Frame.read_eq_sync, h.1, Frame.ofSync]
    | parse e =>
      simp only [ProgSpec] at h
      cases e <;> simp only [FrameAgree, Frame.read_eq_sync, h.1, Frame.ofSync]
    | io e =>
      simp only [ProgSpec] at h
      obtain ⟨atStart, hs, hte, _, _⟩ := h
      refine ⟨by simp only [Frame.read_eq_sync, hs, Frame.ofSync], ?_⟩
      -- `atStart` is exactly "the input is empty"
      have hiff : atStart = bs.isEmpty := by
        cases atStart with
        | true => have := Frame.sync_needMore_true bs hs; simp [this]
        | false =>
          cases hb : bs.isEmpty with
          | false => rfl
          | true =>
            have : bs = [] := by simpa using hb
            subst this; rw [Frame.sync_nil] at hs; cases hs
      rw [← hte, hiff]
      cases t <;> simp [endError, tailErr]

/-! ### the stream typestates: `read_frame_async` = `read_frame` -/

/-- Relation between one asynchronous run of a typestate reader (any number of ignorable
frames skipped on the way) and the one-shot `read_frame` on the same bytes. -/
def TsAgree (role : Role) (st : Bool) (bs : Bytes) (t : Tail) : Bool × Ts.AsyncRead × Src × List Poll → Prop
  | (st', .frame f, s', _) => Ts.readFrame role st bs = (st', .frame f s'.rest)
  | (st', .h3 e, _, _) => Ts.readFrame role st bs = (st', .err e) ∨
      (e = .frame ∧ t = .fin ∧ Ts.readFrame role st bs = (st', .needMore))
  | (st', .io e, _, _) => Ts.readFrame role st bs = (st', .needMore) ∧ e ≠ .unexpectedFin ∧
      ((e = .immediateFin ∧ t = .fin) ∨ (e = .reset ∧ t = .reset) ∨ (e = .notConnected ∧ t = .lost))
  | (_, .blocked, s', _) => ∃ c, bs = c ++ s'.rest

/-- **Typestates: async = one-shot.** For every stream role, state, byte string, end of source,
chunking and `Pending` pattern (and any bound on the number of loop turns): a delivered frame is
the frame `read_frame` delivers, with the same state and the same bytes left; an H3 error is the
same error — or H3_FRAME_ERROR where the one-shot reader needs more data and the stream has
finished; an I/O error only where the one-shot reader needs more; an unfinished run has consumed
a prefix and delivered nothing. -/
theorem typestate_async_eq_oneshot (role : Role) : ∀ (fuel : Nat) (st : Bool) (bs : Bytes) (t : Tail) (o : List Poll),
    TsAgree role st bs t (Ts.readFrameAsync role fuel st ⟨bs, t⟩ o) := by
  intro fuel
  induction fuel with
  | zero => intro st bs t o; exact ⟨[], rfl⟩
  | succ n ih =>
    intro st bs t o
    have hsound := Prog.run_sound Frame.readAsync ⟨bs, t⟩ o
    have hagree := frame_async_eq_oneshot bs t o
    unfold Ts.readFrameAsync
    generalize Frame.readAsync.run ⟨bs, t⟩ o = out at hsound hagree ⊢
    cases out with
    | blocked s' => exact hagree
    | done r s' o' =>
      cases r with
      | ok f =>
        simp only [FrameAgree] at hagree
        simp only
        have hrf := Ts.readFrame_eq role st bs
        rw [hagree] at hrf
        cases hv : (Ts.validate role st f).2 with
        | ok f' => simp only [hv] at hrf ⊢; exact hrf
        | error e => simp only [hv] at hrf ⊢; exact Or.inl hrf
      | parse e =>
        cases e with
        | unknownFrame =>
          simp only [FrameAgree] at hagree
          simp only [ProgSpec] at hsound
          have hs' : s' = ⟨s'.rest, t⟩ := by cases s'; simp only [Src.mk.injEq, true_and]; exact hsound.2
          have hrec := ih st s'.rest t o'
          rw [← hs'] at hrec
          have hrf : Ts.readFrame role st bs = Ts.readFrame role st s'.rest := by
            rw [Ts.readFrame_eq role st bs, hagree]
          simp only
          generalize Ts.readFrameAsync role n st s' o' = res at hrec ⊢
          obtain ⟨st', r, s2, o2⟩ := res
          cases r with
          | frame f => simp only [TsAgree] at hrec ⊢; rw [hrf]; exact hrec
          | h3 e => simp only [TsAgree] at hrec ⊢; rw [hrf]; exact hrec
          | io e => simp only [TsAgree] at hrec ⊢; rw [hrf]; exact hrec
          | blocked =>
            simp only [TsAgree] at hrec ⊢
            obtain ⟨c, hc⟩ := hrec
            obtain ⟨c0, hc0⟩ := Props.C05.read_unknown_suffix hagree
            exact ⟨c0 ++ c, by rw [hc0, hc, List.append_assoc]⟩
        | invalidSessionId =>
          simp only [FrameAgree] at hagree
          refine Or.inl ?_
          rw [Ts.readFrame_eq role st bs, hagree]
        | payloadTooBig =>
          simp only [FrameAgree] at hagree
          refine Or.inl ?_
          rw [Ts.readFrame_eq role st bs, hagree]
      | io e =>
        simp only [FrameAgree] at hagree
        obtain ⟨hread, hend⟩ := hagree
        have hrf : Ts.readFrame role st bs = (st, .needMore) := by rw [Ts.readFrame_eq role st bs, hread]
        have ht : endError bs t = some e := hend
        cases e with
        | unexpectedFin =>
          refine Or.inr ⟨rfl, ?_, hrf⟩
          cases t <;> simp [endError] at ht ⊢ <;> (try (split at ht <;> cases ht))
        | immediateFin =>
          refine ⟨hrf, by decide, Or.inl ⟨rfl, ?_⟩⟩
          cases t <;> simp [endError] at ht ⊢ <;> (try (split at ht <;> cases ht))
        | reset =>
          refine ⟨hrf, by decide, Or.inr (Or.inl ⟨rfl, ?_⟩)⟩
          cases t <;> simp [endError] at ht ⊢ <;> (try (split at ht <;> cases ht))
        | notConnected =>
          refine ⟨hrf, by decide, Or.inr (Or.inr ⟨rfl, ?_⟩)⟩
          cases t <;> simp [endError] at ht ⊢ <;> (try (split at ht <;> cases ht))

def HeaderAgree (bs : Bytes) (t : Tail) : Out HeaderParseError StreamHeader → Prop
  | .done (.ok h) s' _ => StreamHeader.read bs = .header h s'.rest
  | .done (.parse .unknownStream) _ _ => StreamHeader.read bs = .unknownStream
  | .done (.parse .invalidSessionId) _ _ => StreamHeader.read bs = .invalidSessionId
  | .done (.io e) _ _ => StreamHeader.read bs = .needMore ∧ endError bs t = some e
  | .blocked s' => ∃ c, bs = c ++ s'.rest

/-- **Stream headers: async = one-shot.** -/
theorem header_async_eq_oneshot (bs : Bytes) (t : Tail) (o : List Poll) :
    HeaderAgree bs t (StreamHeader.readAsync.run ⟨bs, t⟩ o) := by
  have h := Prog.run_sound StreamHeader.readAsync ⟨bs, t⟩ o
  generalize StreamHeader.readAsync.run ⟨bs, t⟩ o = out at h ⊢
  cases out with
  | blocked s' =>
    simp only [ProgSpec] at h
    obtain ⟨c, hc, _⟩ := h
    exact ⟨c, hc⟩
  | done r s' o' =>
    cases r with
    | ok f =>
      simp only [ProgSpec] at h
      simp only [HeaderAgree, StreamHeader.read_eq_sync, h.1, StreamHeader.ofSync]
    | parse e =>
      simp only [ProgSpec] at h
      cases e <;> simp only [HeaderAgree, StreamHeader.read_eq_sync, h.1, StreamHeader.ofSync]
    | io e =>
      simp only [ProgSpec] at h
      obtain ⟨atStart, hs, hte, _, _⟩ := h
      refine ⟨by simp only [StreamHeader.read_eq_sync, hs, StreamHeader.ofSync], ?_⟩
      have hiff : atStart = bs.isEmpty := by
        cases atStart with
        | true => have := StreamHeader.sync_needMore_true bs hs; simp [this]
        | false =>
          cases hb : bs.isEmpty with
          | false => rfl
          | true =>
            have : bs = [] := by simpa using hb
            subst this; rw [StreamHeader.sync_nil] at hs; cases hs
      rw [← hte, hiff]
      cases t <;> simp [endError, tailErr]

/-- **Buffered = one-shot, and the read position moves only on a value**: `read_from_buffer`
returns what `read` returns; the offset advances by exactly the bytes of the frame when a frame
is returned and stays where it was on need-more and on every error. -/
theorem frame_buffered_eq_oneshot (bs : Bytes) :
    (Frame.readFromBuffer bs).1 = Frame.read bs ∧
    (∀ f rest, Frame.read bs = .frame f rest → (Frame.readFromBuffer bs).2 = bs.length - rest.length) ∧
    ((∀ f rest, Frame.read bs ≠ .frame f rest) → (Frame.readFromBuffer bs).2 = 0) := by
  unfold Frame.readFromBuffer
  cases h : Frame.read bs <;> simp

theorem header_buffered_eq_oneshot (bs : Bytes) :
    (StreamHeader.readFromBuffer bs).1 = StreamHeader.read bs ∧
    (∀ h rest, StreamHeader.read bs = .header h rest →
        (StreamHeader.readFromBuffer bs).2 = bs.length - rest.length) ∧
    ((∀ h rest, StreamHeader.read bs ≠ .header h rest) → (StreamHeader.readFromBuffer bs).2 = 0) := by
  unfold StreamHeader.readFromBuffer
  cases h : StreamHeader.read bs <;> simp

/-- **A proper prefix asks for more data** — never a spurious value, never an error: if reading
`c ++ rest` yields a frame (or skips an ignorable frame) leaving `rest`, then reading any proper
prefix of `c` yields need-more. -/
theorem frame_prefix_needs_more (c rest : Bytes) (k : Nat) (hk : k < c.length)
    (h : (∃ f, Frame.read (c ++ rest) = .frame f rest) ∨ Frame.read (c ++ rest) = .unknown rest) :
    Frame.read (c.take k) = .needMore := by
  rw [Frame.read_eq_sync] at h ⊢
  cases hs : Frame.readAsync.sync (c ++ rest) with
  | ok f rest' =>
    rw [hs] at h
    simp only [Frame.ofSync, FrameRead.frame.injEq, reduceCtorEq, or_false] at h
    obtain ⟨f0, _, hr⟩ := h
    obtain ⟨f', hf⟩ := Prog.sync_prefix Frame.readAsync c rest _ hs (by simpa [SyncRes.LeavesRest] using hr) k hk
    simp [hf, Frame.ofSync]
  | parse e rest' =>
    rw [hs] at h
    cases e with
    | unknownFrame =>
      simp only [Frame.ofSync, reduceCtorEq, exists_false, FrameRead.unknown.injEq, false_or] at h
      obtain ⟨f', hf⟩ := Prog.sync_prefix Frame.readAsync c rest _ hs (by simpa [SyncRes.LeavesRest] using h) k hk
      simp [hf, Frame.ofSync]
    | invalidSessionId => simp [Frame.ofSync] at h
    | payloadTooBig => simp [Frame.ofSync] at h
  | needMore f => rw [hs] at h; simp [Frame.ofSync] at h

theorem header_prefix_needs_more (c rest : Bytes) (k : Nat) (hk : k < c.length)
    (h : ∃ hd, StreamHeader.read (c ++ rest) = .header hd rest) :
    StreamHeader.read (c.take k) = .needMore := by
  rw [StreamHeader.read_eq_sync] at h ⊢
  cases hs : StreamHeader.readAsync.sync (c ++ rest) with
  | ok f rest' =>
    rw [hs] at h
    simp only [StreamHeader.ofSync, HeaderRead.header.injEq] at h
    obtain ⟨h0, _, hr⟩ := h
    obtain ⟨f', hf⟩ := Prog.sync_prefix StreamHeader.readAsync c rest _ hs
      (by simpa [SyncRes.LeavesRest] using hr) k hk
    simp [hf, StreamHeader.ofSync]
  | parse e rest' => rw [hs] at h; cases e <;> simp [StreamHeader.ofSync] at h
  | needMore f => rw [hs] at h; simp [StreamHeader.ofSync] at h

/-- in particular every proper prefix of a valid encoding asks for more -/
theorem valid_frame_prefix_needs_more (f : Frame) (hwf : Frame.WF f) (hid : f.kind.id < 2^62)
    (hlen : f.payload.length ≤ Frame.maxParsePayload) (k : Nat) (hk : k < (Frame.write f).length) :
    Frame.read ((Frame.write f).take k) = .needMore := by
  have h := Frame.read_write f [] hwf hid hlen
  exact frame_prefix_needs_more (Frame.write f) [] k hk (Or.inl ⟨f, h⟩)

/-! ### non-vacuity -/

-- a two-chunk delivery with a Pending in between of a DATA frame `00 02 aa bb` followed by `cc`
example : Frame.readAsync.run ⟨[0, 2, 0xaa, 0xbb, 0xcc], .fin⟩ [.give 1, .pending, .give 2, .give 5]
    = .done (.ok ⟨.data, [0xaa, 0xbb], none⟩) ⟨[0xcc], .fin⟩ [] := by decide
example : Frame.read [0, 2, 0xaa, 0xbb, 0xcc] = .frame ⟨.data, [0xaa, 0xbb], none⟩ [0xcc] := by decide
example : Frame.readAsync.run ⟨[0, 2, 0xaa], .fin⟩ [.give 8, .give 8, .give 8, .give 8]
    = .done (.io .unexpectedFin) ⟨[], .fin⟩ [] := by decide
example : Frame.readAsync.run ⟨[], .fin⟩ [.give 8] = .done (.io .immediateFin) ⟨[], .fin⟩ [] := by decide

end Props.C15
