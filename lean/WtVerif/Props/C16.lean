/-
C16 — Everything the endpoint emits is well-formed HTTP/3 and WebTransport.

(1) every constant and table the code uses on the wire (regenerated from the sources) equals
the independent transcription of the registries in `Spec/H3.lean`; (2) what the model
encoders emit is accepted, with the same meaning, by the independent `Spec` decoders.
-/
import WtVerif.Lemmas.Worker
import WtVerif.Lemmas.Ids
import WtVerif.Spec.H3
import WtVerif.Lemmas.Wire

namespace Props.C16
open Varint

/-! ### registries -/

theorem frame_types_registered :
    Generated.FRAME_DATA = Spec.FRAME_DATA ∧ Generated.FRAME_HEADERS = Spec.FRAME_HEADERS ∧
    Generated.FRAME_SETTINGS = Spec.FRAME_SETTINGS ∧
    Generated.FRAME_WEBTRANSPORT_STREAM = Spec.FRAME_WEBTRANSPORT_STREAM := by decide

theorem stream_types_registered :
    Generated.STREAM_CONTROL_STREAM = Spec.STREAM_CONTROL ∧
    Generated.STREAM_QPACK_ENCODER_STREAM = Spec.STREAM_QPACK_ENCODER ∧
    Generated.STREAM_QPACK_DECODER_STREAM = Spec.STREAM_QPACK_DECODER ∧
    Generated.STREAM_WEBTRANSPORT_STREAM = Spec.STREAM_WEBTRANSPORT := by decide

theorem setting_ids_registered :
    Generated.SETTINGS_QPACK_MAX_TABLE_CAPACITY = Spec.SETTINGS_QPACK_MAX_TABLE_CAPACITY ∧
    Generated.SETTINGS_MAX_FIELD_SECTION_SIZE = Spec.SETTINGS_MAX_FIELD_SECTION_SIZE ∧
    Generated.SETTINGS_QPACK_BLOCKED_STREAMS = Spec.SETTINGS_QPACK_BLOCKED_STREAMS ∧
    Generated.SETTINGS_ENABLE_CONNECT_PROTOCOL = Spec.SETTINGS_ENABLE_CONNECT_PROTOCOL ∧
    Generated.SETTINGS_H3_DATAGRAM = Spec.SETTINGS_H3_DATAGRAM ∧
    Generated.SETTINGS_ENABLE_WEBTRANSPORT = Spec.SETTINGS_ENABLE_WEBTRANSPORT ∧
    Generated.SETTINGS_WEBTRANSPORT_MAX_SESSIONS = Spec.SETTINGS_WEBTRANSPORT_MAX_SESSIONS ∧
    Generated.SETTINGS_RESERVED = Spec.SETTINGS_RESERVED := by decide

theorem error_codes_registered : Generated.ERROR_CODES = Spec.errorCodes := by decide

theorem capsule_type_registered :
    Generated.CAPSULE_CLOSE_WEBTRANSPORT_SESSION = Spec.CAPSULE_CLOSE_WEBTRANSPORT_SESSION := by decide

theorem alpn_is_h3 : Generated.WEBTRANSPORT_ALPN = "h3" := by decide

/-- the GREASE formula of each of the three registries is `0x1f * N + 0x21` -/
theorem grease_formula (id : Nat) :
    FrameKind.isIdExercise id = Spec.isGrease id ∧ StreamKind.isIdExercise id = Spec.isGrease id ∧
    SettingId.isExercise id = Spec.isGrease id := by
  simp only [FrameKind.isIdExercise, StreamKind.isIdExercise, SettingId.isExercise, isGrease, Spec.isGrease,
    Generated.GREASE_BASE, Generated.GREASE_STEP, Generated.STREAM_GREASE_BASE, Generated.STREAM_GREASE_STEP,
    Generated.SETTINGS_GREASE_BASE, Generated.SETTINGS_GREASE_STEP]
  refine ⟨?_, ?_, ?_⟩ <;>
  · by_cases h1 : 33 ≤ id <;> by_cases h2 : (id - 33) % 31 = 0 <;> simp [h1, h2]

/-- the QPACK static table, all 99 rows, is RFC 9204 Appendix A -/
theorem static_table_is_rfc9204 : Generated.QPACK_STATIC_TABLE_STR = Spec.staticTable := by decide

theorem static_table_size : Generated.QPACK_STATIC_TABLE.length = 99 ∧ Generated.QPACK_STATIC_TABLE_STR.length = 99 := by
  decide

/-! ### the Huffman code the endpoint uses (tables of the linked crate) -/

/-- Kraft equality: the 257 codes (256 symbols + EOS) form a complete prefix code -/
theorem huffman_code_is_complete :
    (Generated.HUFFMAN_ENCODE.map (fun p => 2 ^ (30 - p.1))).sum = 2 ^ 30 ∧
    Generated.HUFFMAN_ENCODE.length = 257 ∧ Generated.HUFFMAN_ENCODE.all (fun p => 5 ≤ p.1 && p.1 ≤ 30 && p.2 < 2 ^ p.1) := by
  decide +kernel

/-- RFC 7541 Appendix C.4.1 / C.6.1 examples: `www.example.com`, `no-cache`, `custom-key`,
`custom-value`, `302`, `private` -/
theorem huffman_rfc7541_examples :
    Huffman.encode [119, 119, 119, 46, 101, 120, 97, 109, 112, 108, 101, 46, 99, 111, 109] =
      [0xf1, 0xe3, 0xc2, 0xe5, 0xf2, 0x3a, 0x6b, 0xa0, 0xab, 0x90, 0xf4, 0xff] ∧
    Huffman.encode [110, 111, 45, 99, 97, 99, 104, 101] = [0xa8, 0xeb, 0x10, 0x64, 0x9c, 0xbf] ∧
    Huffman.encode [99, 117, 115, 116, 111, 109, 45, 107, 101, 121] = [0x25, 0xa8, 0x49, 0xe9, 0x5b, 0xa9, 0x7d, 0x7f] ∧
    Huffman.encode [99, 117, 115, 116, 111, 109, 45, 118, 97, 108, 117, 101] =
      [0x25, 0xa8, 0x49, 0xe9, 0x5b, 0xb8, 0xe8, 0xb4, 0xbf] ∧
    Huffman.encode [51, 48, 50] = [0x64, 0x02] ∧
    Huffman.encode [112, 114, 105, 118, 97, 116, 101] = [0xae, 0xc3, 0x77, 0x1a, 0x4b] := by
  decide +kernel

/-! ### control stream -/

/-- the settings the endpoint advertises: zero-capacity QPACK table, no blocked streams,
extended CONNECT, HTTP datagrams, WebTransport (one session) — each exactly once -/
theorem advertised_settings :
    Settings.advertised = [(.qpackMaxTableCapacity, 0), (.qpackBlockedStreams, 0), (.enableConnectProtocol, 1),
      (.enableWebTransport, 1), (.h3Datagram, 1), (.webTransportMaxSessions, 1)] := by decide

/-- the control stream starts with stream type 0x00 followed by one SETTINGS frame whose payload
an independent RFC 9114 parser reads as exactly those settings -/
theorem control_stream_wellformed :
    StreamHeader.write ⟨.control, none⟩ = [0x00] ∧
    Frame.write ⟨.settings, Settings.encode Settings.advertised, none⟩ =
      [0x04, (Settings.encode Settings.advertised).length.toUInt8] ++ Settings.encode Settings.advertised ∧
    Spec.settingsParse 100 (Settings.encode Settings.advertised) [] =
      .ok [(0x01, 0), (0x07, 0), (0x08, 1), (0x2b603742, 1), (0x33, 1), (0xc671706a, 1)] := by
  decide +kernel

/-! ### stream preambles and datagrams -/

/-- the two independent variable-length integer decoders agree on what the encoder writes -/
theorem spec_varint_reads_encoder (v : Nat) (hv : v < 2^62) (rest : Bytes) :
    Spec.varint (enc v ++ rest) = some (v, rest) := by
  unfold enc
  split
  · have h1 : v % 256 / 64 = 0 := by omega
    simp [Spec.varint, Spec.beNat, h1]; omega
  · split
    · have h1 : (64 + v / 256) % 256 / 64 = 1 := by omega
      simp [Spec.varint, Spec.beNat, b, h1]; omega
    · split
      · have h1 : (128 + v / 16777216) % 256 / 64 = 2 := by omega
        simp [Spec.varint, Spec.beNat, b, h1]; omega
      · have h1 : (192 + v / 72057594037927936) % 256 / 64 = 3 := by omega
        simp [Spec.varint, Spec.beNat, b, h1]; omega

/-- every WebTransport unidirectional stream starts with stream type 0x54 then the session id;
every bidirectional one with the signal 0x41 then the session id; both as the specification's
own decoder reads them, followed by nothing but the application's bytes -/
theorem preambles_wellformed (sid : Nat) (hs : sid < 2^62) (payload : Bytes) :
    (∃ r, Spec.varint (StreamHeader.write ⟨.webtransport, some sid⟩ ++ payload) = some (Spec.STREAM_WEBTRANSPORT, r) ∧
      Spec.varint r = some (sid, payload)) ∧
    (∃ r, Spec.varint (Frame.write ⟨.webtransport, [], some sid⟩ ++ payload) = some (Spec.FRAME_WEBTRANSPORT_STREAM, r) ∧
      Spec.varint r = some (sid, payload)) := by
  constructor
  · refine ⟨enc sid ++ payload, ?_, spec_varint_reads_encoder sid hs payload⟩
    simp only [StreamHeader.write, StreamHeader.sessionIdOf, List.append_assoc]
    exact spec_varint_reads_encoder _ (by decide) _
  · refine ⟨enc sid ++ payload, ?_, spec_varint_reads_encoder sid hs payload⟩
    simp only [Frame.write, Frame.sessionIdOf, List.append_assoc]
    exact spec_varint_reads_encoder _ (by decide) _

/-- every datagram is the session's quarter stream id (session id / 4) followed by the payload -/
theorem datagrams_wellformed (sid : Nat) (hs : sid < 2^62) (hv : sid % 4 = 0) (payload : Bytes) :
    Spec.varint (Datagram.appWrite sid payload).quic = some (sid / 4, payload) := by
  simp only [Datagram.appWrite, Ids.qOfSession_eq]
  exact spec_varint_reads_encoder _ (by omega) _

/-- field sections use only static-table or literal representations: the two prefix integers
are zero (no dynamic-table state is ever referenced) -/
theorem field_section_prefix_is_zero (fs : List Qpack.Field) :
    ∃ lines, Qpack.encode fs = [0x00, 0x00] ++ lines := by
  refine ⟨fs.flatMap Qpack.encodeField, ?_⟩
  simp [Qpack.encode, Qpack.encodeInt]

/-- every Huffman string the endpoint emits is the code words of its bytes followed by fewer
than 8 one-bits — a prefix of EOS, the only padding RFC 7541 §5.2 allows -/
theorem huffman_padding_is_eos_prefix (s : Bytes) :
    ∃ k, k < 8 ∧ (Huffman.encode s).flatMap Huffman.byteBits
      = s.flatMap (fun b => Huffman.codeBits b.toNat) ++ List.replicate k true := by
  refine ⟨Huffman.padLen (s.flatMap (fun b => Huffman.codeBits b.toNat)).length, by unfold Huffman.padLen; omega, ?_⟩
  unfold Huffman.encode
  exact Huffman.packBits_bits _

/-- every header section the endpoint emits (names and values are Rust strings) is decodable,
and decodes to the map it was generated from -/
theorem emitted_header_section_decodes (h : Headers) (hnd : (h.map (·.1)).Nodup) (ht : Headers.Texts h) :
    ∃ h', Headers.withPayload (Headers.encode h) = .ok h' ∧ ∀ k, Headers.get h' k = Headers.get h k := by
  obtain ⟨h', hw, _, hg⟩ := Headers.wire_roundtrip h hnd ht
  exact ⟨h', hw, hg⟩

/-! ### non-vacuity -/
example : Spec.varint [0x40, 0x54, 0x00, 0x01] = some (0x54, [0x00, 0x01]) := by decide
example : Spec.isGrease 0x21 = true ∧ Spec.isGrease 0x40 = true ∧ Spec.isGrease 0x41 = false := by decide

end Props.C16
