/-
C17 — Identifier algebra is exact and foreign-session traffic is never delivered.
-/
import WtVerif.Lemmas.Ids
import WtVerif.Lemmas.Frame
import WtVerif.StreamRules

namespace Props.C17
open Ids

/-- A session id is accepted exactly when it names a client-initiated bidirectional stream
(QUIC: the two low bits are zero). -/
theorem session_id_accepted_iff (v : Nat) :
    (sessionIdTry v = some v ↔ v % 4 = 0) ∧ (sessionIdTry v = none ↔ v % 4 ≠ 0) := by
  refine ⟨sessionIdTry_some_iff v, ?_⟩
  rw [sessionIdTry_eq]; split <;> simp [*]

/-- Stream-id classification is QUIC's (RFC 9000 §2.1): bit 0 = initiator (0 = client),
bit 1 = direction (0 = bidirectional); "local" = initiated by this endpoint's role. -/
theorem classification_is_quic (v : Nat) (isServer : Bool) :
    (isBidirectional v = true ↔ v / 2 % 2 = 0) ∧ (isClientInitiated v = true ↔ v % 2 = 0) ∧
    (isLocal v isServer = true ↔ (v % 2 = 1 ↔ isServer = true)) := by
  refine ⟨isBidirectional_iff v, isClientInitiated_iff v, ?_⟩
  simp only [isLocal, Nat.and_one_is_mod]
  cases isServer <;> simp <;> omega

/-- session id → quarter stream id → session id is the identity, and stays in range:
the `debug_assert!`s and the `unsafe` preconditions of `from_session_id` hold for all 2^62
values. -/
theorem session_quarter_session (s : Nat) (hs : s < 2^62) (hv : s % 4 = 0) :
    qOfSession s ≤ qMax ∧ sessionOfQ (qOfSession s) = s := by
  have hq : qOfSession s = s / 4 := qOfSession_eq s
  have hmax : qMax = 2^60 - 1 := by decide
  refine ⟨by rw [hq, hmax]; omega, ?_⟩
  rw [hq, sessionOfQ_eq _ (by omega)]; omega

/-- quarter stream id → session id → quarter stream id is the identity; the session id is a
valid one below 2^62 (preconditions of `into_stream_id`, `into_session_id`,
`from_session_stream_unchecked`). -/
theorem quarter_session_quarter (q : Nat) (hq : q ≤ qMax) :
    sessionOfQ q < 2^62 ∧ sessionIdTry (sessionOfQ q) = some (sessionOfQ q) ∧
    qOfSession (sessionOfQ q) = q := by
  have hmax : qMax = 2^60 - 1 := by decide
  have h1 : sessionOfQ q = q * 4 := sessionOfQ_eq q (by omega)
  refine ⟨by omega, (sessionIdTry_some_iff _).2 (by omega), ?_⟩
  rw [qOfSession_eq, h1]; omega

/-- `QStreamId::try_from_varint` accepts exactly the values up to 2^60 − 1 -/
theorem quarter_accepted_iff (v : Nat) : qTry v = some v ↔ v ≤ 2^60 - 1 := by
  have hmax : qMax = 2^60 - 1 := by decide
  unfold qTry; rw [hmax]; split <;> simp [*]

/-- a datagram's session id (from any accepted quarter id) is always a valid session id -/
theorem datagram_session_id_valid (quic : Bytes) (d : Datagram.App) (h : Datagram.appRead quic = some d) :
    d.sessionId % 4 = 0 ∧ d.sessionId < 2^62 := by
  unfold Datagram.appRead at h
  cases hr : Datagram.read quic with
  | err => rw [hr] at h; cases h
  | ok q payload =>
    rw [hr] at h
    simp only [Option.some.injEq] at h
    subst h
    simp only
    -- q passed `qTry`
    unfold Datagram.read at hr
    split at hr
    · cases hr
    · rename_i v rest hd
      split at hr
      · cases hr
      · rename_i q' hq
        simp only [Datagram.ReadResult.ok.injEq] at hr
        obtain ⟨rfl, _⟩ := hr
        unfold qTry at hq
        split at hq
        · rename_i hle
          simp only [Option.some.injEq] at hq; subst hq
          obtain ⟨h1, h2, _⟩ := quarter_session_quarter v hle
          exact ⟨(sessionIdTry_some_iff _).1 h2, h1⟩
        · cases hq

/-! ### the application-side filter (`Driver::accept_uni/accept_bi/receive_datagram`) -/

/-- One call of `accept_*(session_id)` on the queue of ready items `(session id, item)`:
`loop { recv; if it names the session return it; else refuse it (streams: STOP_SENDING with
WEBTRANSPORT_BUFFERED_STREAM_REJECTED; datagrams: drop) }`. Returns the delivered item, the
refused ones and what is left in the queue. -/
def acceptFiltered {α : Type} (sid : Nat) : List (Nat × α) → Option α × List (Nat × α) × List (Nat × α)
  | [] => (none, [], [])
  | (s, x) :: q =>
    if s = sid then (some x, [], q)
    else
      let (d, rej, rest) := acceptFiltered sid q
      (d, (s, x) :: rej, rest)

/-- Foreign-session traffic is never delivered: whatever is in the queue, the item an accept
call returns names the caller's session, every refused item names another one, nothing is
lost (queue = refused ++ delivered ++ rest) and the delivered item is the first of its
session. -/
theorem filter_never_delivers_foreign {α : Type} (sid : Nat) (q : List (Nat × α)) :
    let (d, rej, rest) := acceptFiltered sid q
    (∀ p ∈ rej, p.1 ≠ sid) ∧
    (match d with
     | some x => q = rej ++ (sid, x) :: rest
     | none => q = rej ∧ rest = []) := by
  induction q with
  | nil => simp [acceptFiltered]
  | cons hd tl ih =>
    obtain ⟨s, x⟩ := hd
    simp only [acceptFiltered]
    split
    · rename_i h; subst h; simp
    · rename_i h
      cases hr : acceptFiltered sid tl with
      | mk d rr =>
        obtain ⟨rej, rest⟩ := rr
        rw [hr] at ih
        simp only at ih ⊢
        refine ⟨?_, ?_⟩
        · intro p hp
          simp only [List.mem_cons] at hp
          rcases hp with rfl | hp
          · exact h
          · exact ih.1 p hp
        · cases d with
          | some y => simp only at ih ⊢; rw [ih.2]; simp
          | none => simp only at ih ⊢; exact ⟨by rw [ih.2.1], ih.2.2⟩

/-- the refusal code is the registered WEBTRANSPORT_BUFFERED_STREAM_REJECTED -/
theorem buffered_stream_rejected_code : H3Err.bufferedStreamRejected.toCode = 0x3994bd84 := by decide

/-! ### non-vacuity -/
example : sessionIdTry 8 = some 8 ∧ sessionIdTry 9 = none ∧ sessionIdTry 10 = none := by decide
example : qOfSession ((2^62 - 4)) = 2^60 - 1 ∧ sessionOfQ (2^60 - 1) = 2^62 - 4 := by decide
example : acceptFiltered 0 [(8, "f"), (4, "g"), (0, "live"), (0, "next")] =
    (some "live", [(8, "f"), (4, "g")], [(0, "next")]) := by decide

end Props.C17
