/-
C18 — Only well-formed WebTransport requests and responses are admitted.
-/
import WtVerif.Lemmas.Headers
import WtVerif.Lemmas.Worker

namespace Props.C18
open Session

/-- A request is admitted iff it is an extended CONNECT with protocol `webtransport`, scheme
`https`, and both authority and path present — for every header map, whatever else it holds. -/
theorem admitted_iff (h : Headers) :
    (∃ r, requestTryFrom h = .ok r) ↔
      Headers.get h Names.method = some Names.connect ∧ Headers.get h Names.scheme = some Names.https ∧
      Headers.get h Names.protocol = some Names.webtransport ∧
      (Headers.get h Names.authority).isSome ∧ (Headers.get h Names.path).isSome := by
  unfold requestTryFrom
  cases hm : Headers.get h Names.method with
  | none => simp
  | some m =>
    by_cases h1 : m = Names.connect
    · subst h1
      cases hs : Headers.get h Names.scheme with
      | none => simp
      | some s =>
        by_cases h2 : s = Names.https
        · subst h2
          cases hp : Headers.get h Names.protocol with
          | none => simp
          | some p =>
            by_cases h3 : p = Names.webtransport
            · subst h3
              cases ha : Headers.get h Names.authority <;> cases hpa : Headers.get h Names.path <;> simp
            · simp [h3]
        · simp [h2]
    · simp [h1]

/-- an admitted request is handed over unchanged: authority and path are the fields received -/
theorem admitted_unchanged (h r : Headers) (hr : requestTryFrom h = .ok r) : r = h := by
  unfold requestTryFrom at hr
  repeat' split at hr
  all_goals first | cases hr | (simp at hr; exact hr.symm) | skip
  all_goals simp_all

/-- any other decodable request is refused on its own stream — H3_REQUEST_REJECTED for a method
other than CONNECT, H3_MESSAGE_ERROR otherwise — never by closing the connection -/
theorem malformed_request_refused_on_its_stream (payload : Bytes) (h : Headers)
    (hd : Headers.withPayload payload = .ok h) (hbad : ∀ r, requestTryFrom h ≠ .ok r) :
    Session.admitRequest payload = .refuseStream .requestRejected ∨ Session.admitRequest payload = .refuseStream .message := by
  unfold Session.admitRequest
  rw [hd]
  simp only
  cases hr : requestTryFrom h with
  | ok r => exact absurd hr (hbad r)
  | error e => cases e <;> simp

/-- … and that is what the worker's task does with such a first HEADERS frame -/
theorem malformed_request_keeps_connection (payload rest : Bytes) (t : Tail) (h : Headers)
    (hlen : payload.length ≤ Frame.maxParsePayload)
    (hd : Headers.withPayload payload = .ok h) (hbad : ∀ r, requestTryFrom h ≠ .ok r) :
    ∃ e, Worker.biTask (Frame.write ⟨.headers, payload, none⟩ ++ rest) t = .refuseStream e := by
  rw [Worker.biTask_eq, Ts.readFrame_eq,
    Frame.read_write ⟨.headers, payload, none⟩ rest (show Frame.WF ⟨.headers, payload, none⟩ from rfl)
      (show Generated.FRAME_HEADERS < 2^62 by decide) hlen]
  rcases malformed_request_refused_on_its_stream payload h hd hbad with h1 | h1 <;>
    simp [Ts.validate, FrameKind.isExercise, Frame.sessionIdOf, h1]

/-- **A status value never escapes 100..=599 through any constructor** (`TryFrom<u8/u16/u32/u64>`,
`try_from_u32`, `FromStr`) -/
theorem status_never_escapes :
    (∀ v c, Ids.statusTry v = some c → c = v ∧ 100 ≤ c ∧ c ≤ 599) ∧
    (∀ s c, Ids.statusFromStr s = some c → 100 ≤ c ∧ c ≤ 599) := by
  have key : ∀ v c, Ids.statusTry v = some c → c = v ∧ 100 ≤ c ∧ c ≤ 599 := by
    intro v c h
    unfold Ids.statusTry Ids.statusMin Ids.statusMax at h
    simp only [Generated.STATUS_MIN, Generated.STATUS_MAX] at h
    split at h
    · cases h; omega
    · cases h
  refine ⟨key, ?_⟩
  intro s c h
  unfold Ids.statusFromStr at h
  split at h
  · cases h
  · exact (key _ _ h).2

/-- every value in range is constructible -/
theorem status_in_range_accepted (v : Nat) (h : 100 ≤ v ∧ v ≤ 599) : Ids.statusTry v = some v := by
  unfold Ids.statusTry Ids.statusMin Ids.statusMax
  simp only [Generated.STATUS_MIN, Generated.STATUS_MAX]
  simp [h]

/-- a response counts as acceptance only with a valid status within 200..=299; a missing,
non-numeric or out-of-range status is malformed (H3_MESSAGE_ERROR), never acceptance -/
theorem accept_only_2xx (payload : Bytes) (h : Headers) (hd : Headers.withPayload payload = .ok h) :
    (clientVerdict payload = .established ↔
      ∃ c, responseTryFrom h = .ok c ∧ 200 ≤ c ∧ c ≤ 299) ∧
    ((∀ c, responseTryFrom h ≠ .ok c) → clientVerdict payload = .localError .message) := by
  unfold clientVerdict
  rw [hd]
  simp only
  cases hr : responseTryFrom h with
  | error e => simp
  | ok c =>
    have hiff : Ids.isSuccessful c = true ↔ 200 ≤ c ∧ c < 300 := by
      unfold Ids.isSuccessful
      simp [Generated.STATUS_SUCCESS_LO, Generated.STATUS_SUCCESS_HI]
    cases hb : Ids.isSuccessful c with
    | true =>
      have hc := hiff.1 hb
      simp only [hb, if_true, true_iff]
      exact ⟨⟨c, rfl, hc.1, by omega⟩, fun hno => absurd rfl (hno c)⟩
    | false =>
      simp only [hb, Bool.false_eq_true, if_false]
      refine ⟨⟨fun hh => ?_, ?_⟩, fun hno => absurd rfl (hno c)⟩
      · cases hh
      · rintro ⟨c', hc', h1, h2⟩
        cases hc'
        have := hiff.2 ⟨h1, by omega⟩
        rw [hb] at this; cases this

/-- the status a response is judged by lies in 100..=599 -/
theorem response_status_in_range (h : Headers) (c : Nat) (hr : responseTryFrom h = .ok c) : 100 ≤ c ∧ c ≤ 599 := by
  unfold responseTryFrom at hr
  split at hr
  · cases hr
  · split at hr
    · rename_i c' hc'; cases hr; exact status_never_escapes.2 _ _ hc'
    · cases hr

theorem any_eq_iff (l : List Bytes) (k : Bytes) :
    l.any (fun r => decide (r = k)) = true ↔ k ∈ l := by
  induction l with
  | nil => simp
  | cons a t ih =>
    simp only [List.any_cons, Bool.or_eq_true, decide_eq_true_eq, List.mem_cons, ih]
    constructor
    · rintro (h | h)
      · exact Or.inl h.symm
      · exact Or.inr h
    · rintro (h | h)
      · exact Or.inl h.symm
      · exact Or.inr h

/-- **Reserved pseudo-header fields can never be overridden**: `insert` refuses exactly the five
reserved names, and accepting any other name leaves all five untouched. -/
theorem reserved_never_overridden (h : Headers) (k v : Bytes) :
    (requestInsert h k v = none ↔ k ∈ [Names.method, Names.scheme, Names.protocol, Names.authority, Names.path]) ∧
    (∀ h', requestInsert h k v = some h' →
      ∀ r ∈ [Names.method, Names.scheme, Names.protocol, Names.authority, Names.path],
        Headers.get h' r = Headers.get h r) := by
  have hres : Generated.RESERVED_HEADERS_BYTES.any (fun r => decide (r = k)) = true ↔
      k ∈ [Names.method, Names.scheme, Names.protocol, Names.authority, Names.path] := by
    rw [any_eq_iff]; rfl
  unfold requestInsert
  constructor
  · constructor
    · intro hh; split at hh
      · rename_i hc; exact hres.1 hc
      · cases hh
    · intro hk; rw [if_pos (hres.2 hk)]
  · intro h' hh r hr
    split at hh
    · cases hh
    · rename_i hc
      cases hh
      rw [Headers.get_insert]
      have : r ≠ k := by
        intro e; subst e; exact hc (hres.2 hr)
      simp [this]

/-- **Authority and path are exactly the URL's authority and path-plus-query.** -/
theorem authority_path_exact (authority path : Bytes) (query : Option Bytes) :
    Headers.get (requestNew authority path query) Names.authority = some authority ∧
    Headers.get (requestNew authority path query) Names.path =
      some (match query with | some q => path ++ [63] ++ q | none => path) ∧
    Headers.get (requestNew authority path query) Names.method = some Names.connect ∧
    Headers.get (requestNew authority path query) Names.scheme = some Names.https ∧
    Headers.get (requestNew authority path query) Names.protocol = some Names.webtransport := by
  unfold requestNew
  simp only [List.foldl, Headers.get_insert]
  have d : ∀ a b : Bytes, a ≠ b → (a = b) = False := fun a b h => by simp [h]
  refine ⟨?_, ?_, ?_, ?_, ?_⟩ <;>
    simp [Headers.get_nil, List.append_assoc,
      d Names.method Names.scheme (by decide),
      d Names.method Names.protocol (by decide),
      d Names.method Names.authority (by decide),
      d Names.method Names.path (by decide),
      d Names.scheme Names.method (by decide),
      d Names.scheme Names.protocol (by decide),
      d Names.scheme Names.authority (by decide),
      d Names.scheme Names.path (by decide),
      d Names.protocol Names.method (by decide),
      d Names.protocol Names.scheme (by decide),
      d Names.protocol Names.authority (by decide),
      d Names.protocol Names.path (by decide),
      d Names.authority Names.method (by decide),
      d Names.authority Names.scheme (by decide),
      d Names.authority Names.protocol (by decide),
      d Names.authority Names.path (by decide),
      d Names.path Names.method (by decide),
      d Names.path Names.scheme (by decide),
      d Names.path Names.protocol (by decide),
      d Names.path Names.authority (by decide)] <;> (try (cases query <;> rfl))

/-! ### non-vacuity -/
example : ∃ r, requestTryFrom (requestNew [101, 120] [47, 97] (some [120, 61, 49])) = .ok r :=
  (admitted_iff _).2 (by
    have h := authority_path_exact [101, 120] [47, 97] (some [120, 61, 49])
    refine ⟨h.2.2.1, h.2.2.2.1, h.2.2.2.2, ?_, ?_⟩
    · rw [h.1]; rfl
    · rw [h.2.1]; rfl)

/-- the names and fixed values the model uses are the literals of `session.rs` (regenerated) -/
theorem names_tied_to_source :
    Generated.RESERVED_HEADERS_BYTES = Names.reserved ∧
    Generated.REQUEST_HEADERS_BYTES = [(Names.method, Names.connect), (Names.scheme, Names.https),
      (Names.protocol, Names.webtransport), (Names.authority, []), (Names.path, [])] ∧
    Generated.REQUEST_TRYFROM_CHECKS = [(Names.method, some Names.connect), (Names.scheme, some Names.https),
      (Names.protocol, some Names.webtransport), (Names.authority, none), (Names.path, none)] ∧
    Generated.STATUS_HEADER_BYTES = Names.status := by decide
example : Ids.statusFromStr ['6', '0', '0'] = none ∧ Ids.statusFromStr ['9', '9'] = none ∧
    Ids.statusFromStr ['0'] = none ∧ Ids.statusFromStr ['6', '5', '5', '3', '5'] = none ∧
    Ids.statusFromStr ['2', '0', '0'] = some 200 := by decide

end Props.C18
