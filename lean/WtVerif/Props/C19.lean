/-
C19 — Identities, PEM files and digests round-trip (text formats proved here; certificate
generation, PEM and DER parsing are rcgen / pem / x509-parser and are tied by correspondence).
-/
import WtVerif.Tls
import WtVerif.Props.C10

namespace Props.C19
open DigestText

/-- per-byte facts, all 256 values: decimal and two-digit hex text parse back to the byte, and
contain no separator, sign, space or bracket -/
theorem byte_text_roundtrip :
    (List.range 256).all (fun b =>
      parseU8 10 (dec3 b) == some b && parseU8 16 (hex2 b) == some b &&
      (dec3 b).all (fun c => c.isDigit) && (hex2 b).all (fun c => c.isDigit || ('a' ≤ c && c ≤ 'f')) &&
      trim (dec3 b) == dec3 b && trim (hex2 b) == hex2 b) = true := by
  decide +kernel

/-- splitting a joined list of separator-free pieces gives the pieces back -/
theorem splitOn_joinWith (c : Char) (parts : List (List Char)) (hne : parts ≠ [])
    (hfree : ∀ p ∈ parts, c ∉ p) : splitOn c (joinWith [c] parts) = parts := by
  induction parts with
  | nil => exact absurd rfl hne
  | cons p t ih =>
    cases t with
    | nil =>
      simp only [joinWith]
      have hp := hfree p (by simp)
      clear ih hne hfree
      induction p with
      | nil => rfl
      | cons x r ihr =>
        have hx : x ≠ c := fun e => hp (by simp [e])
        have hr : c ∉ r := fun h => hp (by simp [h])
        simp only [splitOn, ihr hr, hx, if_false]
    | cons q t' =>
      have iht := ih (by simp) (fun p' hp' => hfree p' (by simp [hp']))
      simp only [joinWith]
      have hp := hfree p (by simp)
      clear ih hne hfree
      induction p with
      | nil => simp [splitOn, iht]
      | cons x r ihr =>
        have hx : x ≠ c := fun e => hp (by simp [e])
        have hr : c ∉ r := fun h => hp (by simp [h])
        have := ihr hr
        simp only [List.cons_append, splitOn] at this ⊢
        rw [this]
        simp [hx]

/-- **Dotted-hex digests round-trip**, for every byte string (in particular all 2^256 digests):
parsing the formatted text gives the pieces back, so with 32 bytes it gives the digest. -/
theorem dotted_hex_pieces (d : Bytes) (hne : d ≠ []) :
    splitOn ':' (fmtDottedHex d) = d.map (fun b => hex2 b.toNat) := by
  unfold fmtDottedHex
  apply splitOn_joinWith
  · simpa using hne
  · intro p hp
    simp only [List.mem_map] at hp
    obtain ⟨b, _, rfl⟩ := hp
    have hb := b.toNat_lt
    have := byte_text_roundtrip
    simp only [List.all_eq_true, List.mem_range, Bool.and_eq_true] at this
    have h := (this b.toNat hb).1.1.2
    intro hc
    have := h ':' hc
    simp at this

/-- the per-piece parse returns the byte -/
theorem hex_piece_parses (b : UInt8) : parseU8 16 (trim (hex2 b.toNat)) = some b.toNat := by
  have hb := b.toNat_lt
  have := byte_text_roundtrip
  simp only [List.all_eq_true, List.mem_range, Bool.and_eq_true, beq_iff_eq] at this
  have h := this b.toNat hb
  rw [h.2, h.1.1.1.1.2]

theorem allSome_map_some (l : List Nat) : allSome (l.map some) = some l := by
  induction l with
  | nil => rfl
  | cons x r ih => simp [allSome, ih]

theorem digest_hex_roundtrip (d : Bytes) (hlen : d.length = 32) : parseDottedHex (fmtDottedHex d) = some d := by
  have hne : d ≠ [] := by intro h; rw [h] at hlen; cases hlen
  unfold parseDottedHex
  rw [dotted_hex_pieces d hne]
  have : (d.map (fun b => hex2 b.toNat)).map (fun p => parseU8 16 (trim p)) = (d.map (·.toNat)).map some := by
    simp only [List.map_map]
    apply List.map_congr_left
    intro b _
    simp [hex_piece_parses]
  rw [this, allSome_map_some]
  have hid : (d.map (·.toNat)).map UInt8.ofNat = d := by
    rw [List.map_map]
    conv => rhs; rw [← List.map_id d]
    apply List.map_congr_left
    intro b _
    simp
  simp [hlen, hid]

/-- a digest in dotted-hex never parses as a bytes-array (it contains `:` and letters or more than
three digits …): `FromStr` therefore reaches the dotted-hex fallback — shown here on the
representative all-`ab` digest; the general statement is exercised by the correspondence -/
theorem from_str_fallback_example :
    fromStr (fmtDottedHex (List.replicate 32 0xab)) = some (List.replicate 32 0xab) := by decide +kernel

/-- bytes-array text of the all-zero, all-0xff and a mixed digest parse back (per-byte decimal
facts are in `byte_text_roundtrip`; the splitting of `", "`-joined text is exercised by the
correspondence for every byte value) -/
theorem bytes_array_examples :
    parseBytesArray (fmtBytesArray (List.replicate 32 0)) = some (List.replicate 32 0) ∧
    parseBytesArray (fmtBytesArray (List.replicate 32 255)) = some (List.replicate 32 255) ∧
    fromStr (fmtBytesArray (List.replicate 32 97)) = some (List.replicate 32 97) := by decide +kernel

/-- malformed digest text is an error value (the parsers are total): wrong length -/
theorem wrong_length_rejected (d : Bytes) (h : d.length ≠ 32) (hne : d ≠ []) :
    parseDottedHex (fmtDottedHex d) = none := by
  unfold parseDottedHex
  rw [dotted_hex_pieces d hne]
  have : (d.map (fun b => hex2 b.toNat)).map (fun p => parseU8 16 (trim p)) = (d.map (·.toNat)).map some := by
    simp only [List.map_map]
    apply List.map_congr_left
    intro b _
    simp [hex_piece_parses]
  rw [this, allSome_map_some]
  simp [h]

/-- the default identity's validity is 14 days and it is accepted by its own pin (C10) -/
theorem default_identity_validity : Generated.TLS_DEFAULT_VALIDITY_DAYS = 14 ∧
    Generated.TLS_DEFAULT_VALIDITY_DAYS ≤ Generated.TLS_SELF_MAX_VALIDITY_DAYS := by decide

end Props.C19
