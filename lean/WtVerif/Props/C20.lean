/-
C20 — Configuration is honoured (decision tables; the live half is in the e2e correspondence).
-/
import WtVerif.Tls

namespace Props.C20
open Config

/-- **Bind table**: for each of the six presets, the address family, the address and what
happens to IPV6_V6ONLY are the requested ones: V4 presets bind an IPv4 socket (option
untouched), V6 presets an IPv6-only socket, Dual presets an IPv6 socket with v6only cleared. -/
theorem bind_table :
    bindPlan .localV4 = some (.v4, .loopback, .unset) ∧
    bindPlan .localV6 = some (.v6, .loopback, .setTrue) ∧
    bindPlan .localDual = some (.v6, .loopback, .setFalse) ∧
    bindPlan .inAddrAnyV4 = some (.v4, .unspecified, .unset) ∧
    bindPlan .inAddrAnyV6 = some (.v6, .unspecified, .setTrue) ∧
    bindPlan .inAddrAnyDual = some (.v6, .unspecified, .setFalse) := by decide

/-- explicit addresses: the dual-stack choice maps to the socket option as documented -/
theorem dual_stack_choice : sockopt .osDefault = some .unset ∧ sockopt .deny = some .setTrue ∧
    sockopt .allow = some .setFalse := by decide

/-- an idle timeout is refused exactly when its milliseconds do not fit a QUIC varint; it is
never silently altered -/
theorem idle_timeout_refused_iff_unrepresentable (ms : Nat) :
    idleTimeoutAccepted ms = true ↔ ms ≤ 2^62 - 1 := by
  unfold idleTimeoutAccepted; simp; omega

/-- ALPN offered and required by every default builder path is `h3` -/
theorem alpn_is_h3 : Generated.WEBTRANSPORT_ALPN = "h3" := by decide

/-- every default TLS configuration the library builds (client and server) offers TLS 1.3 and
nothing else, and exactly one ALPN protocol, the WebTransport one (`alpn_is_h3`) -/
theorem tls13_only_alpn_h3_only :
    Generated.TLS_PROTOCOL_VERSIONS = [["TLS13"], ["TLS13"]] ∧
    Generated.TLS_ALPN_LISTS = [["WEBTRANSPORT_ALPN.to_vec()"], ["WEBTRANSPORT_ALPN.to_vec()"]] := by decide

/-- the keep-alive interval and the migration setting reach quinn exactly as requested
(structure of the builder methods, read from config.rs on every run); migration is on by default -/
theorem keep_alive_and_migration_passed_unchanged :
    Generated.KEEP_ALIVE_PASSED_UNCHANGED = true ∧ Generated.MIGRATION_PASSED_UNCHANGED = true ∧
    Generated.MIGRATION_DEFAULT = true := by decide

end Props.C20
