/-
Model of `wtransport-proto/src/qpack.rs`: prefix integers, string literals, the static table,
`Encoder::encode`, `Decoder::decode`.
-/
import WtVerif.Huffman
import WtVerif.Utf8
import WtVerif.Generated.QpackTable

namespace Qpack

inductive DecErr
  | unexpectedFin | integerOverflow | invalidString | dynamicNotSupported | indexNotFound
  deriving DecidableEq, Repr

/-- continuation bytes of a prefix integer: `value += (byte & 0x7f) << power` with the repaired
checks — `checked_shl` (shift amount below the word size), no bit shifted out, `checked_add` —
in 64-bit `usize` arithmetic. Returns `(value, rest)`. -/
def decodeIntCont : Bytes → Nat → Nat → Except DecErr (Nat × Bytes)
  | [], _, _ => .error .unexpectedFin
  | b :: r, value, power =>
    let chunk := b.toNat % 128
    if power ≥ 64 then .error .integerOverflow            -- `checked_shl` → None
    else if chunk * 2 ^ power ≥ 2 ^ 64 then .error .integerOverflow   -- bits shifted out
    else if value + chunk * 2 ^ power ≥ 2 ^ 64 then .error .integerOverflow  -- `checked_add`
    else
      let value := value + chunk * 2 ^ power
      if b.toNat / 128 = 0 then .ok (value, r) else decodeIntCont r value (power + 7)

/-- `Decoder::decode_integer::<N>`: `(flags, value, rest)` -/
def decodeInt (n : Nat) (bs : Bytes) : Except DecErr (Nat × Nat × Bytes) :=
  match bs with
  | [] => .error .unexpectedFin
  | b :: r =>
    let mask := 2 ^ n - 1
    let flags := (b.toNat / 2 ^ n) % 256
    let value := b.toNat % 2 ^ n
    if value ≠ mask then .ok (flags, value, r)
    else
      match decodeIntCont r value 0 with
      | .ok (v, r') => .ok (flags, v, r')
      | .error e => .error e

/-- the `while rem >= 0x80` loop of `encode_integer` (`fuel` bounds the number of turns; `rem`
turns always suffice since every turn divides `rem` by 128) -/
def encodeIntContF : Nat → Nat → Bytes
  | 0, rem => [UInt8.ofNat rem]
  | fuel + 1, rem =>
    if rem ≥ 128 then UInt8.ofNat (rem % 128 + 128) :: encodeIntContF fuel (rem / 128)
    else [UInt8.ofNat rem]

def encodeIntCont (rem : Nat) : Bytes := encodeIntContF rem rem

/-- `Encoder::encode_integer::<N>(flags, value)`; `((flags as usize) << N) as u8` truncates -/
def encodeInt (n : Nat) (flags value : Nat) : Bytes :=
  let mask := 2 ^ n - 1
  let fb := (flags * 2 ^ n) % 256
  if value < mask then [UInt8.ofNat (fb + value)]   -- `flags | value` (disjoint bits)
  else UInt8.ofNat (fb + mask) :: encodeIntCont (value - mask)

/-- `Decoder::decode_string::<N>`: returns the string's UTF-8 bytes -/
def decodeString (n : Nat) (bs : Bytes) : Except DecErr (Bytes × Bytes) :=
  match decodeInt n bs with
  | .error e => .error e
  | .ok (flags, len, r) =>
    if r.length < len then .error .unexpectedFin
    else
      let data := r.take len
      let rest := r.drop len
      if flags % 2 = 1 then
        match Huffman.decode data with
        | none => .error .invalidString
        | some s => if Utf8.valid s then .ok (s, rest) else .error .invalidString
      else if Utf8.valid data then .ok (data, rest) else .error .invalidString

/-- `Encoder::encode_string::<N>(flags, value)`: Huffman iff strictly shorter -/
def encodeString (n : Nat) (flags : Nat) (s : Bytes) : Bytes :=
  let h := Huffman.encode s
  let (isH, data) := if h.length < s.length then (1, h) else (0, s)
  encodeInt n ((flags * 2 + isH) % 256) data.length ++ data

abbrev Field := Bytes × Bytes

def table : List Field := Generated.QPACK_STATIC_TABLE

inductive Lookup | keyValue (i : Nat) | keyOnly (i : Nat)
  deriving DecidableEq, Repr

/-- `StaticTable::lookup_index`: the FIRST row with an equal name decides -/
def lookupFrom : List Field → Nat → Bytes → Bytes → Option Lookup
  | [], _, _, _ => none
  | (k, v) :: r, i, key, value =>
    if k = key then (if v = value then some (.keyValue i) else some (.keyOnly i))
    else lookupFrom r (i + 1) key value

def lookupIndex (key value : Bytes) : Option Lookup := lookupFrom table 0 key value

/-- one field line of `Encoder::encode` -/
def encodeField (f : Field) : Bytes :=
  match lookupIndex f.1 f.2 with
  | some (.keyValue i) => encodeInt Generated.QPACK_ENC_INDEXED_N Generated.QPACK_ENC_INDEXED_FLAGS i
  | some (.keyOnly i) =>
    encodeInt Generated.QPACK_ENC_NAMEREF_N Generated.QPACK_ENC_NAMEREF_FLAGS i ++
      encodeString Generated.QPACK_ENC_VALUE_N 0 f.2
  | none =>
    encodeString Generated.QPACK_ENC_LITNAME_N Generated.QPACK_ENC_LITNAME_FLAGS f.1 ++
      encodeString Generated.QPACK_ENC_VALUE_N 0 f.2

/-- `Encoder::encode`: two zero prefix integers, then the field lines in iteration order -/
def encode (fs : List Field) : Bytes :=
  encodeInt 8 0 0 ++ encodeInt 7 0 0 ++ fs.flatMap encodeField

/-- `HashMap::insert`: the later value replaces the earlier -/
def mapInsert (m : List Field) (k v : Bytes) : List Field :=
  if m.any (fun p => p.1 = k) then m.map (fun p => if p.1 = k then (k, v) else p) else m ++ [(k, v)]

/-- the field-line loop of `Decoder::decode`; `fuel` = an upper bound on the number of lines
(each consumes at least one byte) -/
def decodeLines : Nat → Bytes → List Field → Except DecErr (List Field)
  | 0, _, acc => .ok acc
  | _ + 1, [], acc => .ok acc
  | fuel + 1, b :: r, acc =>
    let x := b.toNat
    if x / 128 = 1 then
      -- indexed field line
      if x / 64 % 2 = 0 then .error .dynamicNotSupported
      else match decodeInt 6 (b :: r) with
        | .error e => .error e
        | .ok (_, idx, r') =>
          match table[idx]? with
          | none => .error .indexNotFound
          | some (k, v) => decodeLines fuel r' (mapInsert acc k v)
    else if x / 16 = 1 then .error .dynamicNotSupported          -- indexed, post-base
    else if x / 64 = 1 then
      -- literal with name reference
      if x / 16 % 2 = 0 then .error .dynamicNotSupported
      else match decodeInt 4 (b :: r) with
        | .error e => .error e
        | .ok (_, idx, r') =>
          match table[idx]? with
          | none => .error .indexNotFound
          | some (k, _) =>
            match decodeString 7 r' with
            | .error e => .error e
            | .ok (v, r'') => decodeLines fuel r'' (mapInsert acc k v)
    else if x / 16 = 0 then .error .dynamicNotSupported          -- literal, post-base name ref
    else
      -- literal with literal name (x / 32 = 1)
      match decodeString 3 (b :: r) with
      | .error e => .error e
      | .ok (k, r') =>
        match decodeString 7 r' with
        | .error e => .error e
        | .ok (v, r'') => decodeLines fuel r'' (mapInsert acc k v)

/-- `Decoder::decode` -/
def decode (bs : Bytes) : Except DecErr (List Field) :=
  match decodeInt 8 bs with
  | .error e => .error e
  | .ok (_, _, r1) =>
    match decodeInt 7 r1 with
    | .error e => .error e
    | .ok (_, _, r2) => decodeLines (r2.length + 1) r2 []

end Qpack
