/-
Model of `wtransport-proto/src/settings.rs`.
-/
import WtVerif.StreamRules

inductive SettingId
  | qpackMaxTableCapacity | maxFieldSectionSize | qpackBlockedStreams | enableConnectProtocol
  | h3Datagram | enableWebTransport | webTransportMaxSessions
  | exercise (id : Nat)
  deriving DecidableEq, Repr

inductive SettingParseError | reserved | unknown
  deriving DecidableEq, Repr

namespace SettingId

/-- `SettingId::is_reserved`: `matches!(id, 0x0 | 0x2 | 0x3 | 0x4 | 0x5)` -/
def isReserved (id : Nat) : Bool := Generated.SETTINGS_RESERVED.contains id

/-- `SettingId::is_exercise` -/
def isExercise (id : Nat) : Bool := isGrease Generated.SETTINGS_GREASE_BASE Generated.SETTINGS_GREASE_STEP id

/-- `SettingId::parse`: reserved first, then GREASE, then the known ids -/
def parse (id : Nat) : Except SettingParseError SettingId :=
  if isReserved id then .error .reserved
  else if isExercise id then .ok (.exercise id)
  else if id = Generated.SETTINGS_QPACK_MAX_TABLE_CAPACITY then .ok .qpackMaxTableCapacity
  else if id = Generated.SETTINGS_MAX_FIELD_SECTION_SIZE then .ok .maxFieldSectionSize
  else if id = Generated.SETTINGS_QPACK_BLOCKED_STREAMS then .ok .qpackBlockedStreams
  else if id = Generated.SETTINGS_ENABLE_CONNECT_PROTOCOL then .ok .enableConnectProtocol
  else if id = Generated.SETTINGS_H3_DATAGRAM then .ok .h3Datagram
  else if id = Generated.SETTINGS_ENABLE_WEBTRANSPORT then .ok .enableWebTransport
  else if id = Generated.SETTINGS_WEBTRANSPORT_MAX_SESSIONS then .ok .webTransportMaxSessions
  else .error .unknown

/-- `SettingId::id` -/
def id : SettingId → Nat
  | .qpackMaxTableCapacity => Generated.SETTINGS_QPACK_MAX_TABLE_CAPACITY
  | .maxFieldSectionSize => Generated.SETTINGS_MAX_FIELD_SECTION_SIZE
  | .qpackBlockedStreams => Generated.SETTINGS_QPACK_BLOCKED_STREAMS
  | .enableConnectProtocol => Generated.SETTINGS_ENABLE_CONNECT_PROTOCOL
  | .h3Datagram => Generated.SETTINGS_H3_DATAGRAM
  | .enableWebTransport => Generated.SETTINGS_ENABLE_WEBTRANSPORT
  | .webTransportMaxSessions => Generated.SETTINGS_WEBTRANSPORT_MAX_SESSIONS
  | .exercise id => id

end SettingId

/-- `Settings(HashMap<SettingId, VarInt>)` as an association list (first insertion order;
keys distinct by construction of `withPayload`) -/
abbrev Settings := List (SettingId × Nat)

namespace Settings

def get (s : Settings) (k : SettingId) : Option Nat := (s.find? (fun p => p.1 = k)).map (·.2)

/-- `Settings::with_frame` on the frame's payload: `while capacity > 0 { id?; value?; … }`.
Terminates because each turn consumes at least two bytes. -/
def withPayload (bs : Bytes) (acc : Settings) : Except H3Err Settings :=
  if bs.isEmpty then .ok acc
  else
    match h1 : Varint.dec bs with
    | none => .error .frame
    | some (id, r1) =>
      match h2 : Varint.dec r1 with
      | none => .error .frame
      | some (value, r2) =>
        have : r2.length < bs.length := by
          obtain ⟨_, _, _, _, a⟩ := Varint.dec_some_split h1
          obtain ⟨_, _, _, _, b⟩ := Varint.dec_some_split h2
          omega
        match SettingId.parse id with
        | .ok sid =>
          if (get acc sid).isSome then .error .settings
          else withPayload r2 (acc ++ [(sid, value)])
        | .error .unknown => withPayload r2 acc
        | .error .reserved => .error .settings
termination_by bs.length

/-- `Settings::generate_frame` for one iteration order of the hash map -/
def encode (s : Settings) : Bytes :=
  s.foldr (fun p acc => Varint.enc p.1.id ++ Varint.enc p.2 ++ acc) []

/-- the settings `LocalSettingsStream::empty` advertises (builder calls regenerated from
`driver/streams/settings.rs`; a later call on the same id overwrites) -/
def builderCall (name : String) (v : Nat) : Option (SettingId × Nat) :=
  if name = "qpack_max_table_capacity" then some (.qpackMaxTableCapacity, v)
  else if name = "qpack_blocked_streams" then some (.qpackBlockedStreams, v)
  else if name = "enable_connect_protocol" then some (.enableConnectProtocol, 1)
  else if name = "enable_webtransport" then some (.enableWebTransport, 1)
  else if name = "enable_h3_datagrams" then some (.h3Datagram, 1)
  else if name = "webtransport_max_sessions" then some (.webTransportMaxSessions, v)
  else none

def insert (s : Settings) (k : SettingId) (v : Nat) : Settings :=
  if (get s k).isSome then s.map (fun p => if p.1 = k then (k, v) else p) else s ++ [(k, v)]

def advertised : Settings :=
  Generated.ADVERTISED_SETTINGS.foldl (fun acc c =>
    match builderCall c.1 c.2 with
    | some (k, v) => insert acc k v
    | none => acc) []

end Settings
