/-
Independent transcription of the specifications (RFC 9000 §16, RFC 9114, RFC 9204, RFC 7541 §5,
RFC 9297, RFC 9220, draft-ietf-webtrans-http3) used as the ORACLE of the property predicates
and as the right-hand side of the `Generated = Spec` facts. Nothing here refers to
`Generated.*` or to the model of the code: a constant changed in /repo changes the model, not
this file.
-/
import WtVerif.Varint
import WtVerif.Utf8
import WtVerif.Huffman
import WtVerif.AsyncRead

namespace Spec

/-! ### registries -/

def FRAME_DATA : Nat := 0x00
def FRAME_HEADERS : Nat := 0x01
def FRAME_SETTINGS : Nat := 0x04
def FRAME_WEBTRANSPORT_STREAM : Nat := 0x41
def STREAM_CONTROL : Nat := 0x00
def STREAM_QPACK_ENCODER : Nat := 0x02
def STREAM_QPACK_DECODER : Nat := 0x03
def STREAM_WEBTRANSPORT : Nat := 0x54
def SETTINGS_QPACK_MAX_TABLE_CAPACITY : Nat := 0x01
def SETTINGS_MAX_FIELD_SECTION_SIZE : Nat := 0x06
def SETTINGS_QPACK_BLOCKED_STREAMS : Nat := 0x07
def SETTINGS_ENABLE_CONNECT_PROTOCOL : Nat := 0x08
def SETTINGS_H3_DATAGRAM : Nat := 0x33
def SETTINGS_ENABLE_WEBTRANSPORT : Nat := 0x2b603742
def SETTINGS_WEBTRANSPORT_MAX_SESSIONS : Nat := 0xc671706a
/-- HTTP/2 settings with no HTTP/3 counterpart (RFC 9114 §7.2.4.1, §11.2.2) -/
def SETTINGS_RESERVED : List Nat := [0x00, 0x02, 0x03, 0x04, 0x05]
def CAPSULE_CLOSE_WEBTRANSPORT_SESSION : Nat := 0x2843

def H3_DATAGRAM_ERROR : Nat := 0x33
def H3_NO_ERROR : Nat := 0x0100
def H3_STREAM_CREATION_ERROR : Nat := 0x0103
def H3_CLOSED_CRITICAL_STREAM : Nat := 0x0104
def H3_FRAME_UNEXPECTED : Nat := 0x0105
def H3_FRAME_ERROR : Nat := 0x0106
def H3_EXCESSIVE_LOAD : Nat := 0x0107
def H3_ID_ERROR : Nat := 0x0108
def H3_SETTINGS_ERROR : Nat := 0x0109
def H3_MISSING_SETTINGS : Nat := 0x010a
def H3_REQUEST_REJECTED : Nat := 0x010b
def H3_MESSAGE_ERROR : Nat := 0x010e
def QPACK_DECOMPRESSION_FAILED : Nat := 0x0200
def WEBTRANSPORT_BUFFERED_STREAM_REJECTED : Nat := 0x3994bd84
def WEBTRANSPORT_SESSION_GONE : Nat := 0x170d7b68

/-- the registered values by the name the code gives its variants -/
def errorCodes : List (String × Nat) := [
  ("Datagram", H3_DATAGRAM_ERROR), ("NoError", H3_NO_ERROR), ("StreamCreation", H3_STREAM_CREATION_ERROR),
  ("ClosedCriticalStream", H3_CLOSED_CRITICAL_STREAM), ("FrameUnexpected", H3_FRAME_UNEXPECTED),
  ("Frame", H3_FRAME_ERROR), ("ExcessiveLoad", H3_EXCESSIVE_LOAD), ("Id", H3_ID_ERROR),
  ("Settings", H3_SETTINGS_ERROR), ("MissingSettings", H3_MISSING_SETTINGS),
  ("RequestRejected", H3_REQUEST_REJECTED), ("Message", H3_MESSAGE_ERROR),
  ("Decompression", QPACK_DECOMPRESSION_FAILED), ("BufferedStreamRejected", WEBTRANSPORT_BUFFERED_STREAM_REJECTED),
  ("SessionGone", WEBTRANSPORT_SESSION_GONE)]

/-- reserved ("GREASE") identifiers: `0x1f * N + 0x21` (RFC 9114 §6.2.3, §7.2.8, §7.2.4.1) -/
def isGrease (id : Nat) : Bool := id ≥ 0x21 && (id - 0x21) % 0x1f == 0

/-! ### QUIC variable-length integers (RFC 9000 §16), written independently -/

def beNat : Bytes → Nat := fun bs => bs.foldl (fun acc b => acc * 256 + b.toNat) 0

def varint (bs : Bytes) : Option (Nat × Bytes) :=
  match bs with
  | [] => none
  | b :: _ =>
    let len := 2 ^ (b.toNat / 64)          -- two most significant bits: log2 of the length
    if bs.length < len then none
    else some (beNat (bs.take len) % 2 ^ (8 * len - 2), bs.drop len)

/-! ### SETTINGS (RFC 9114 §7.2.4) -/

def knownSetting (id : Nat) : Bool :=
  [SETTINGS_QPACK_MAX_TABLE_CAPACITY, SETTINGS_MAX_FIELD_SECTION_SIZE, SETTINGS_QPACK_BLOCKED_STREAMS,
   SETTINGS_ENABLE_CONNECT_PROTOCOL, SETTINGS_H3_DATAGRAM, SETTINGS_ENABLE_WEBTRANSPORT,
   SETTINGS_WEBTRANSPORT_MAX_SESSIONS].contains id

def insNat (x : Nat × Nat) : List (Nat × Nat) → List (Nat × Nat)
  | [] => [x]
  | y :: r => if x.1 ≤ y.1 then x :: y :: r else y :: insNat x r

/-- `ok:<id=value…>` (the ids an endpoint can remember: registered ones and GREASE ones),
`h3:<code>` for a truncated payload (frame error), a reserved id or a repeated id (settings
error). Unknown ids are ignored. -/
def settingsParse : Nat → Bytes → List (Nat × Nat) → Except Nat (List (Nat × Nat))
  | 0, _, acc => .ok acc
  | _ + 1, [], acc => .ok acc
  | fuel + 1, bs, acc =>
    match varint bs with
    | none => .error H3_FRAME_ERROR
    | some (id, r1) =>
      match varint r1 with
      | none => .error H3_FRAME_ERROR
      | some (v, r2) =>
        if SETTINGS_RESERVED.contains id then .error H3_SETTINGS_ERROR
        else if knownSetting id || isGrease id then
          if acc.any (fun p => p.1 == id) then .error H3_SETTINGS_ERROR
          else settingsParse fuel r2 (acc ++ [(id, v)])
        else settingsParse fuel r2 acc

def settingsParseStr (b : Bytes) : String :=
  match settingsParse (b.length + 1) b [] with
  | .error c => s!"h3:{c}"
  | .ok l =>
    let l := l.foldr insNat []
    if l.isEmpty then "ok:-" else "ok:" ++ ",".intercalate (l.map fun (k, v) => s!"{k}={v}")

/-! ### capsules (RFC 9297 §3.2, WebTransport close capsule) -/

def hexDigit (n : Nat) : Char := if n < 10 then Char.ofNat (48 + n) else Char.ofNat (87 + n)
def hex (b : Bytes) : String :=
  if b.isEmpty then "-"
  else String.ofList (b.foldr (fun x acc => hexDigit (x.toNat / 16) :: hexDigit (x.toNat % 16) :: acc) [])

/-- `none` = not a (complete) close capsule: ignored; `close:<code>:<reason>`; `malformed` -/
def capsuleParse (b : Bytes) : String :=
  match varint b with
  | none => "none"
  | some (ty, r1) =>
    if ty ≠ CAPSULE_CLOSE_WEBTRANSPORT_SESSION then "none"
    else match varint r1 with
      | none => "none"
      | some (len, r2) =>
        if r2.length < len then "none"
        else
          let v := r2.take len
          if len < 4 ∨ len > 4 + 1024 then "malformed"
          else if !Utf8.valid (v.drop 4) then "malformed"
          else s!"close:{beNat (v.take 4)}:{hex (v.drop 4)}"

/-- the implementation's observation matches the oracle: a malformed capsule is reported as
some HTTP/3 protocol error (never as a close) -/
def capsuleMatches (b : Bytes) (obs : String) : Bool :=
  let e := capsuleParse b
  if e == "malformed" then obs.startsWith "h3:" else obs == e

def capsuleParseStr (b : Bytes) : String :=
  let e := capsuleParse b
  if e == "malformed" then s!"h3:{H3_DATAGRAM_ERROR}" else e

/-! ### QPACK (RFC 9204) with the static table of Appendix A -/

def staticTable : List (String × String) := [
  (":authority", ""), (":path", "/"), ("age", "0"), ("content-disposition", ""), ("content-length", "0"),
  ("cookie", ""), ("date", ""), ("etag", ""), ("if-modified-since", ""), ("if-none-match", ""),
  ("last-modified", ""), ("link", ""), ("location", ""), ("referer", ""), ("set-cookie", ""),
  (":method", "CONNECT"), (":method", "DELETE"), (":method", "GET"), (":method", "HEAD"),
  (":method", "OPTIONS"), (":method", "POST"), (":method", "PUT"), (":scheme", "http"),
  (":scheme", "https"), (":status", "103"), (":status", "200"), (":status", "304"), (":status", "404"),
  (":status", "503"), ("accept", "*/*"), ("accept", "application/dns-message"),
  ("accept-encoding", "gzip, deflate, br"), ("accept-ranges", "bytes"),
  ("access-control-allow-headers", "cache-control"), ("access-control-allow-headers", "content-type"),
  ("access-control-allow-origin", "*"), ("cache-control", "max-age=0"),
  ("cache-control", "max-age=2592000"), ("cache-control", "max-age=604800"), ("cache-control", "no-cache"),
  ("cache-control", "no-store"), ("cache-control", "public, max-age=31536000"), ("content-encoding", "br"),
  ("content-encoding", "gzip"), ("content-type", "application/dns-message"),
  ("content-type", "application/javascript"), ("content-type", "application/json"),
  ("content-type", "application/x-www-form-urlencoded"), ("content-type", "image/gif"),
  ("content-type", "image/jpeg"), ("content-type", "image/png"), ("content-type", "text/css"),
  ("content-type", "text/html; charset=utf-8"), ("content-type", "text/plain"),
  ("content-type", "text/plain;charset=utf-8"), ("range", "bytes=0-"),
  ("strict-transport-security", "max-age=31536000"),
  ("strict-transport-security", "max-age=31536000; includesubdomains"),
  ("strict-transport-security", "max-age=31536000; includesubdomains; preload"),
  ("vary", "accept-encoding"), ("vary", "origin"), ("x-content-type-options", "nosniff"),
  ("x-xss-protection", "1; mode=block"), (":status", "100"), (":status", "204"), (":status", "206"),
  (":status", "302"), (":status", "400"), (":status", "403"), (":status", "421"), (":status", "425"),
  (":status", "500"), ("accept-language", ""), ("access-control-allow-credentials", "FALSE"),
  ("access-control-allow-credentials", "TRUE"), ("access-control-allow-headers", "*"),
  ("access-control-allow-methods", "get"), ("access-control-allow-methods", "get, post, options"),
  ("access-control-allow-methods", "options"), ("access-control-expose-headers", "content-length"),
  ("access-control-request-headers", "content-type"), ("access-control-request-method", "get"),
  ("access-control-request-method", "post"), ("alt-svc", "clear"), ("authorization", ""),
  ("content-security-policy", "script-src 'none'; object-src 'none'; base-uri 'none'"),
  ("early-data", "1"), ("expect-ct", ""), ("forwarded", ""), ("if-range", ""), ("origin", ""),
  ("purpose", "prefetch"), ("server", ""), ("timing-allow-origin", "*"),
  ("upgrade-insecure-requests", "1"), ("user-agent", ""), ("x-forwarded-for", ""),
  ("x-frame-options", "deny"), ("x-frame-options", "sameorigin")]

def str (s : String) : Bytes := s.toUTF8.toList

def staticTableBytes : List (Bytes × Bytes) := staticTable.map fun (k, v) => (str k, str v)

/-- prefix integer (RFC 7541 §5.1), unbounded: `(value, rest)`; `none` = truncated -/
def prefixIntCont : Bytes → Nat → Nat → Option (Nat × Bytes)
  | [], _, _ => none
  | b :: r, acc, m =>
    let acc := acc + (b.toNat % 128) * 2 ^ m
    if b.toNat < 128 then some (acc, r) else prefixIntCont r acc (m + 7)

def prefixInt (n : Nat) (bs : Bytes) : Option (Nat × Bytes) :=
  match bs with
  | [] => none
  | b :: r =>
    let i := b.toNat % 2 ^ n
    if i < 2 ^ n - 1 then some (i, r) else prefixIntCont r i 0

/-- Huffman decoding of a string literal. The code table is the one of the linked crate; it is
tied to RFC 7541 Appendix B by the theorems of `Props/C16` (Kraft equality, canonical shape,
the RFC's own examples). -/
def huffDecode (b : Bytes) : Option Bytes := Huffman.decode b

/-- string literal with an `n`-bit length prefix whose next higher bit is H -/
def stringLit (n : Nat) (bs : Bytes) : Option (Bytes × Bytes) :=
  match bs with
  | [] => none
  | b :: _ =>
    let h := b.toNat / 2 ^ n % 2 == 1
    match prefixInt n bs with
    | none => none
    | some (len, r) =>
      if r.length < len then none
      else
        let raw := r.take len
        if h then (huffDecode raw).map (fun s => (s, r.drop len)) else some (raw, r.drop len)

/-- field lines in order of appearance; `none` = undecodable (truncated, dynamic reference,
index beyond the static table, bad string) -/
def fieldLines : Nat → Bytes → List (Bytes × Bytes) → Option (List (Bytes × Bytes))
  | 0, _, acc => some acc
  | _ + 1, [], acc => some acc
  | fuel + 1, b :: r, acc =>
    let x := b.toNat
    if x ≥ 0x80 then
      -- indexed field line: 1 T index(6)
      if x < 0xC0 then none
      else match prefixInt 6 (b :: r) with
        | none => none
        | some (i, r') => match staticTableBytes[i]? with
          | none => none
          | some f => fieldLines fuel r' (acc ++ [f])
    else if x ≥ 0x40 then
      -- literal field line with name reference: 01 N T index(4)
      if x / 16 % 2 = 0 then none
      else match prefixInt 4 (b :: r) with
        | none => none
        | some (i, r') => match staticTableBytes[i]?, stringLit 7 r' with
          | some f, some (v, r'') => fieldLines fuel r'' (acc ++ [(f.1, v)])
          | _, _ => none
    else if x ≥ 0x20 then
      -- literal field line with literal name: 001 N H len(3)
      match stringLit 3 (b :: r) with
      | none => none
      | some (k, r') => match stringLit 7 r' with
        | none => none
        | some (v, r'') => fieldLines fuel r'' (acc ++ [(k, v)])
    else none   -- post-base forms need the dynamic table

/-- encoded field section: Required Insert Count (8-bit prefix), S + Delta Base (7-bit), lines -/
def qpackFields (b : Bytes) : Option (List (Bytes × Bytes)) :=
  match prefixInt 8 b with
  | none => none
  | some (_, r1) => match prefixInt 7 r1 with
    | none => none
    | some (_, r2) => fieldLines (r2.length + 1) r2 []

def bytesLt : Bytes → Bytes → Bool
  | [], [] => false
  | [], _ :: _ => true
  | _ :: _, [] => false
  | a :: r, b :: s => if a.toNat < b.toNat then true else if b.toNat < a.toNat then false else bytesLt r s

def insField (f : Bytes × Bytes) : List (Bytes × Bytes) → List (Bytes × Bytes)
  | [] => [f]
  | g :: r => if bytesLt f.1 g.1 then f :: g :: r else g :: insField f r

/-- as a map (a later field of the same name replaces the earlier), all values valid UTF-8 -/
def qpackDecode (b : Bytes) : Option (List (Bytes × Bytes)) :=
  match qpackFields b with
  | none => none
  | some fs =>
    if fs.all (fun f => Utf8.valid f.1 && Utf8.valid f.2) then
      let m := fs.foldl (fun acc f => if acc.any (fun p => p.1 == f.1)
        then acc.map (fun p => if p.1 == f.1 then f else p) else acc ++ [f]) []
      some (m.foldr insField [])
    else none

def qpackDecodeStr (b : Bytes) : String :=
  match qpackDecode b with
  | none => "undecodable"
  | some m => if m.isEmpty then "ok:-" else "ok:" ++ ";".intercalate (m.map fun (k, v) => s!"{hex k}={hex v}")

/-- RFC 9114 §4.3: all pseudo-header fields appear before regular fields -/
def pseudoFirst (b : Bytes) : Bool :=
  match qpackFields b with
  | none => false
  | some fs =>
    let rest := fs.dropWhile (fun f => f.1.head? == some 58)
    rest.all (fun f => f.1.head? != some 58)

/-! ### requests and responses (RFC 9220 extended CONNECT, WebTransport over HTTP/3) -/

def lookupOpt (p : List (Bytes × Bytes)) (name : String) : Option Bytes :=
  (p.find? (fun f => f.1 == str name)).map (·.2)

def lookup (p : List (Bytes × Bytes)) (name : String) : Bytes := (lookupOpt p name).getD []

def requestWellFormed (p : List (Bytes × Bytes)) : Bool :=
  lookupOpt p ":method" == some (str "CONNECT") && lookupOpt p ":protocol" == some (str "webtransport") &&
  lookupOpt p ":scheme" == some (str "https") && (lookupOpt p ":authority").isSome && (lookupOpt p ":path").isSome

/-- a status code as HTTP writes it: exactly three digits, 100..599 -/
def plainStatus (s : Bytes) : Option Nat :=
  if s.length == 3 && s.all (fun b => 48 ≤ b.toNat && b.toNat ≤ 57) then
    let v := s.foldl (fun acc b => acc * 10 + (b.toNat - 48)) 0
    if 100 ≤ v ∧ v ≤ 599 then some v else none
  else none

/-- spellings a lenient integer parser also reads (a leading `+`, leading zeros) -/
def lenientStatus (s : Bytes) : Option Nat :=
  let d := match s with | 43 :: r => r | r => r
  if !d.isEmpty && d.all (fun b => 48 ≤ b.toNat && b.toNat ≤ 57) then
    let v := d.foldl (fun acc b => acc * 10 + (b.toNat - 48)) 0
    if 100 ≤ v ∧ v ≤ 599 then some v else none
  else none

/-! ### stream rules (RFC 9114 §6.2, §7.2, §8.1; WebTransport over HTTP/3) -/

inductive Reaction | continue_ | error (code : Nat)
  deriving DecidableEq, Repr

/-- what one element of the C12 alphabet makes a reader of stream `role` do, given whether a
frame has already been accepted on the stream (`firstDone`); returns the reaction and the new
`firstDone` -/
def elementRule (role : String) (firstDone : Bool) (el : String) : Reaction × Bool :=
  if el == "unknown" then (.continue_, firstDone)          -- RFC 9114 §9: ignored entirely
  else if el == "grease" then (.continue_, true)           -- a frame of a reserved type
  else if el == "oversize" then (.error H3_EXCESSIVE_LOAD, firstDone)
  else if el == "wt_invalid" then (.error H3_ID_ERROR, firstDone)
  else if role == "unirem" then
    -- control stream: only SETTINGS (and reserved types) are legal frames here
    if el == "settings" then (.continue_, true) else (.error H3_FRAME_UNEXPECTED, firstDone)
  else if el == "settings" then (.error H3_FRAME_UNEXPECTED, firstDone)
  else if el == "wt_valid" then
    if role == "birem" then (if firstDone then (.error H3_FRAME_ERROR, true) else (.continue_, true))
    else (.error H3_FRAME_UNEXPECTED, firstDone)     -- the peer cannot signal on a stream we opened
  else (.continue_, true)                                   -- DATA, HEADERS

def ruleRun (role : String) : Bool → List String → Reaction
  | _, [] => .continue_
  | fd, el :: r =>
    -- `[…, el, "truncated"]`: `el` is cut by the end of the stream and never takes effect
    if el == "truncated" || r.head? == some "truncated" then .continue_
    else match elementRule role fd el with
      | (.error c, _) => .error c
      | (.continue_, fd') => ruleRun role fd' r

/-- expected terminal reaction to a history; `none` = the history is outside the oracle -/
def ruleVerdict (role : String) (names : List String) : Option (Reaction × Bool) :=
  some (ruleRun role false names, names.getLastD "" == "truncated")

def reactionMatches (e : Reaction × Bool) (term : String) : Bool :=
  match e.1 with
  | .error c => term == s!"h3:{c}"
  | .continue_ => term == "needmore"

def asyncReactionMatches (e : Reaction × Bool) (tail : Tail) (at_ : String) : Bool :=
  match e.1 with
  | .error c => at_ == s!"h3:{c}"
  | .continue_ =>
    match tail with
    | .fin => at_ == (if e.2 then s!"h3:{H3_FRAME_ERROR}" else "io:immediate_fin")
    | .reset => at_ == "io:reset"
    | .lost => at_ == "io:not_connected"
    | .open_ => false

end Spec

theorem Props.C11.prefixIntCont_rest_le : ∀ (bs : Bytes) (acc m v : Nat) (r : Bytes),
    Spec.prefixIntCont bs acc m = some (v, r) → r.length ≤ bs.length := by
  intro bs
  induction bs with
  | nil => intro acc m v r h; simp [Spec.prefixIntCont] at h
  | cons b t ih =>
    intro acc m v r h
    simp only [Spec.prefixIntCont] at h
    split at h
    · simp only [Option.some.injEq, Prod.mk.injEq] at h; obtain ⟨_, rfl⟩ := h; simp
    · have := ih _ _ _ _ h; simp; omega
