/-
Model of `wtransport-proto/src/stream_header.rs`.
-/
import WtVerif.Ids
import WtVerif.AsyncRead

inductive StreamKind
  | control | qpackEncoder | qpackDecoder | webtransport
  | exercise (id : Nat)
  deriving DecidableEq, Repr

namespace StreamKind

/-- `StreamKind::is_id_exercise` -/
def isIdExercise (id : Nat) : Bool :=
  isGrease Generated.STREAM_GREASE_BASE Generated.STREAM_GREASE_STEP id

/-- `StreamKind::parse` (match arms in source order) -/
def parse (id : Nat) : Option StreamKind :=
  if id = Generated.STREAM_CONTROL_STREAM then some .control
  else if id = Generated.STREAM_QPACK_ENCODER_STREAM then some .qpackEncoder
  else if id = Generated.STREAM_QPACK_DECODER_STREAM then some .qpackDecoder
  else if id = Generated.STREAM_WEBTRANSPORT_STREAM then some .webtransport
  else if isIdExercise id then some (.exercise id)
  else none

/-- `StreamKind::id` -/
def id : StreamKind → Nat
  | .control => Generated.STREAM_CONTROL_STREAM
  | .qpackEncoder => Generated.STREAM_QPACK_ENCODER_STREAM
  | .qpackDecoder => Generated.STREAM_QPACK_DECODER_STREAM
  | .webtransport => Generated.STREAM_WEBTRANSPORT_STREAM
  | .exercise id => id

end StreamKind

structure StreamHeader where
  kind : StreamKind
  sessionId : Option Nat
  deriving DecidableEq, Repr

inductive HeaderRead
  | header (h : StreamHeader) (rest : Bytes)
  | needMore
  | unknownStream
  | invalidSessionId
  deriving DecidableEq, Repr

namespace StreamHeader

/-- what `StreamHeader::new`'s `debug_assert!`s promise -/
def WF (h : StreamHeader) : Prop :=
  match h.kind with
  | .webtransport => ∃ s, h.sessionId = some s ∧ Ids.sessionIdTry s = some s ∧ s < 2^62
  | .exercise id => StreamKind.isIdExercise id = true ∧ id < 2^62 ∧ h.sessionId = none
  | _ => h.sessionId = none

/-- `StreamHeader::read` -/
def read (bs : Bytes) : HeaderRead :=
  match Varint.dec bs with
  | none => .needMore
  | some (kindId, r1) =>
    match StreamKind.parse kindId with
    | none => .unknownStream
    | some .webtransport =>
      match Varint.dec r1 with
      | none => .needMore
      | some (sid, r2) =>
        match Ids.sessionIdTry sid with
        | none => .invalidSessionId
        | some s => .header ⟨.webtransport, some s⟩ r2
    | some kind => .header ⟨kind, none⟩ r1

def sessionIdOf (h : StreamHeader) : Option Nat :=
  match h.kind with
  | .webtransport => h.sessionId
  | _ => none

/-- `StreamHeader::write` -/
def write (h : StreamHeader) : Bytes :=
  Varint.enc h.kind.id ++
    (match sessionIdOf h with
     | some s => Varint.enc s
     | none => [])

/-- `StreamHeader::write_size` -/
def writeSize (h : StreamHeader) : Nat :=
  match sessionIdOf h with
  | some s => Varint.size h.kind.id + Varint.size s
  | none => Varint.size h.kind.id

def writeToBuffer (h : StreamHeader) (cap : Nat) : Option Bytes :=
  if cap < writeSize h then none else some (write h)

def readFromBuffer (bs : Bytes) : HeaderRead × Nat :=
  match read bs with
  | .header h rest => (.header h rest, bs.length - rest.length)
  | r => (r, 0)

end StreamHeader

inductive HeaderParseError
  | unknownStream | invalidSessionId
  deriving DecidableEq, Repr

namespace StreamHeader

/-- `StreamHeader::read_async` -/
def readAsync : Prog HeaderParseError StreamHeader :=
  .varint true fun kindId =>
    match StreamKind.parse kindId with
    | none => .fail .unknownStream
    | some .webtransport =>
      .varint false fun sid =>
        match Ids.sessionIdTry sid with
        | none => .fail .invalidSessionId
        | some s => .ret ⟨.webtransport, some s⟩
    | some kind => .ret ⟨kind, none⟩

def writeParts (h : StreamHeader) : List Bytes :=
  match sessionIdOf h with
  | some s => [Varint.enc h.kind.id, Varint.enc s]
  | none => [Varint.enc h.kind.id]

end StreamHeader
