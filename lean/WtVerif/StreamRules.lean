/-
Model of `wtransport-proto/src/stream.rs`: the stream typestates' `read_frame`,
`read_frame_from_buffer`, `read_frame_async` and `validate_frame`.
-/
import WtVerif.Lemmas.Progress

/-- `ErrorCode` (the variants the readers produce) -/
inductive H3Err
  | datagram | noError | streamCreation | closedCriticalStream | frameUnexpected | frame
  | excessiveLoad | id | settings | missingSettings | requestRejected | message | decompression
  | bufferedStreamRejected | sessionGone
  deriving DecidableEq, Repr

namespace H3Err
/-- `ErrorCode::to_code` (values regenerated from `error.rs`) -/
def toCode : H3Err → Nat
  | .datagram => Generated.ERR_Datagram
  | .noError => Generated.ERR_NoError
  | .streamCreation => Generated.ERR_StreamCreation
  | .closedCriticalStream => Generated.ERR_ClosedCriticalStream
  | .frameUnexpected => Generated.ERR_FrameUnexpected
  | .frame => Generated.ERR_Frame
  | .excessiveLoad => Generated.ERR_ExcessiveLoad
  | .id => Generated.ERR_Id
  | .settings => Generated.ERR_Settings
  | .missingSettings => Generated.ERR_MissingSettings
  | .requestRejected => Generated.ERR_RequestRejected
  | .message => Generated.ERR_Message
  | .decompression => Generated.ERR_Decompression
  | .bufferedStreamRejected => Generated.ERR_BufferedStreamRejected
  | .sessionGone => Generated.ERR_SessionGone
end H3Err

/-- the four typestates that read frames -/
inductive Role
  | biRemote    -- `StreamBiRemoteH3`
  | biLocal     -- `StreamBiLocalH3`
  | uniRemote   -- `StreamUniRemoteH3` (control stream)
  | session     -- `StreamSession`
  deriving DecidableEq, Repr

namespace Ts

/-- `validate_frame` of each typestate; the state is `first_frame_done` (only `biRemote` reads
and sets it). Returns the new state and the verdict. -/
def validate (role : Role) (firstDone : Bool) (f : Frame) : Bool × Except H3Err Frame :=
  match role with
  | .biRemote =>
    (true,
      match f.kind with
      | .data => .ok f
      | .headers => .ok f
      | .settings => .error .frameUnexpected
      | .webtransport => if !firstDone then .ok f else .error .frame
      | .exercise _ => .ok f)
  | .biLocal | .session =>
    (firstDone,
      match f.kind with
      | .data => .ok f
      | .headers => .ok f
      | .settings => .error .frameUnexpected
      | .webtransport => .error .frameUnexpected
      | .exercise _ => .ok f)
  | .uniRemote =>
    (firstDone,
      match f.kind with
      | .data => .error .frameUnexpected
      | .headers => .error .frameUnexpected
      | .settings => .ok f
      | .webtransport => .error .frameUnexpected
      | .exercise _ => .ok f)

inductive Read
  | frame (f : Frame) (rest : Bytes)
  | needMore
  | err (e : H3Err)
  deriving DecidableEq, Repr

/-- `read_frame`: `loop { match Frame::read { Ok(Some) => validate, Ok(None) => None,
UnknownFrame => continue, InvalidSessionId => Id, PayloadTooBig => ExcessiveLoad } }`.
Terminates because every `continue` consumed at least one byte (`Frame.read_unknown_lt`). -/
def readFrame (role : Role) (firstDone : Bool) (bs : Bytes) : Bool × Read :=
  match h : Frame.read bs with
  | .frame f rest =>
    let (st, v) := validate role firstDone f
    match v with
    | .ok f => (st, .frame f rest)
    | .error e => (st, .err e)
  | .needMore => (firstDone, .needMore)
  | .unknown rest =>
    have : rest.length < bs.length := Frame.read_unknown_lt h
    readFrame role firstDone rest
  | .invalidSessionId => (firstDone, .err .id)
  | .payloadTooBig => (firstDone, .err .excessiveLoad)
termination_by bs.length

/-- `read_frame_from_buffer`: commit the child's offset only on `Some(frame)` -/
def readFrameFromBuffer (role : Role) (firstDone : Bool) (bs : Bytes) : Bool × Read × Nat :=
  match readFrame role firstDone bs with
  | (st, .frame f rest) => (st, .frame f rest, bs.length - rest.length)
  | (st, r) => (st, r, 0)

inductive AsyncRead
  | frame (f : Frame)
  | h3 (e : H3Err)
  | io (e : IoErr)
  | blocked
  deriving DecidableEq, Repr

/-- `read_frame_async`: the same loop over `Frame::read_async`; `UnexpectedFin` becomes
`H3(Frame)`, other I/O errors pass through. `fuel` bounds the number of loop turns by the
oracle length (every turn uses at least one oracle entry). -/
def readFrameAsync (role : Role) : Nat → Bool → Src → List Poll → Bool × AsyncRead × Src × List Poll
  | 0, st, s, o => (st, .blocked, s, o)
  | fuel + 1, st, s, o =>
    match Frame.readAsync.run s o with
    | .blocked s' => (st, .blocked, s', [])
    | .done (.ok f) s' o' =>
      let (st', v) := validate role st f
      match v with
      | .ok f => (st', .frame f, s', o')
      | .error e => (st', .h3 e, s', o')
    | .done (.parse .unknownFrame) s' o' => readFrameAsync role fuel st s' o'
    | .done (.parse .invalidSessionId) s' o' => (st, .h3 .id, s', o')
    | .done (.parse .payloadTooBig) s' o' => (st, .h3 .excessiveLoad, s', o')
    | .done (.io .unexpectedFin) s' o' => (st, .h3 .frame, s', o')
    | .done (.io e) s' o' => (st, .io e, s', o')

end Ts

namespace Ts

/-- progress of the typestate readers: a delivered frame consumed input -/
theorem readFrame_frame_lt {role : Role} : ∀ (n : Nat) {st st' : Bool} {bs rest : Bytes} {f : Frame},
    bs.length ≤ n → readFrame role st bs = (st', .frame f rest) → rest.length < bs.length := by
  intro n
  induction n with
  | zero =>
    intro st st' bs rest f hn h
    have : bs = [] := List.eq_nil_of_length_eq_zero (by omega)
    subst this
    unfold readFrame at h
    split at h
    · rename_i hr; simp [Frame.read, Varint.dec] at hr
    · cases h
    · rename_i hr; simp [Frame.read, Varint.dec] at hr
    · cases h
    · cases h
  | succ n ih =>
    intro st st' bs rest f hn h
    unfold readFrame at h
    split at h
    · rename_i f0 rest0 hr
      have hlt := Frame.read_frame_lt hr
      cases hv : (validate role st f0).2 with
      | ok f1 => simp only [hv] at h; cases h; exact hlt
      | error e => simp only [hv] at h; cases h
    · cases h
    · rename_i rest0 hr
      have hlt := Frame.read_unknown_lt hr
      have := ih (by omega) h
      omega
    · cases h
    · cases h

end Ts
