/-
Model of `wtransport/src/tls.rs`: `ServerHashVerification::verify_server_cert` over a
certificate *view* (what x509-parser / sha2 report about the DER), the trust-policy wiring of
`config.rs`, and the SHA-256 digest text formats.
-/
import WtVerif.Varint

namespace Tls

/-- what the verifier looks at (x509-parser, sha2 are external: their answers are inputs) -/
structure CertView where
  derOk : Bool            -- `X509Certificate::from_der` succeeds
  notBefore : Int         -- seconds since the epoch
  notAfter : Int
  keyIsEc : Bool          -- algorithm OID = id-ecPublicKey
  curveIsP256 : Bool      -- parameters = prime256v1
  sha256 : Bytes          -- SHA-256 of the DER
  deriving DecidableEq, Repr

inductive VerifyErr | badEncoding | notValidYet | expired | unknownIssuer
  deriving DecidableEq, Repr

def maxValiditySecs : Int := Generated.TLS_SELF_MAX_VALIDITY_DAYS * 86400

/-- `ServerHashVerification::verify_server_cert`, check by check in source order -/
def verify (hashes : List Bytes) (now : Int) (c : CertView) : Except VerifyErr Unit :=
  if !c.derOk then .error .badEncoding
  else if now < c.notBefore then .error .notValidYet
  else if now > c.notAfter then .error .expired
  else if c.notAfter - c.notBefore > maxValiditySecs then .error .unknownIssuer
  else if !c.keyIsEc then .error .unknownIssuer
  else if !c.curveIsP256 then .error .unknownIssuer
  else if hashes.contains c.sha256 then .ok () else .error .unknownIssuer

/-- client trust policies of `ClientConfigBuilder` and what they install: (root store, custom
verifier) -/
inductive Policy | nativeCerts | noCertValidation | serverCertificateHashes | customTls
  deriving DecidableEq, Repr

inductive RootStore | native | empty | callers deriving DecidableEq, Repr
inductive Verifier | webpkiDefault | noVerification | hashPinning | callers deriving DecidableEq, Repr

def wiring : Policy → RootStore × Verifier
  | .nativeCerts => (.native, .webpkiDefault)
  | .noCertValidation => (.empty, .noVerification)
  | .serverCertificateHashes => (.empty, .hashPinning)
  | .customTls => (.callers, .callers)

/-- self-signed builder: `not_after = not_before + days` (`validity_days`), seconds -/
def selfSignedNotAfter (notBefore : Int) (days : Nat) : Int := notBefore + days * 86400

end Tls

namespace DigestText

/-- `u8` as decimal text (`{:?}` of a `u8`) -/
def dec3 (b : Nat) : List Char :=
  if b < 10 then [Char.ofNat (48 + b)]
  else if b < 100 then [Char.ofNat (48 + b / 10), Char.ofNat (48 + b % 10)]
  else [Char.ofNat (48 + b / 100), Char.ofNat (48 + b / 10 % 10), Char.ofNat (48 + b % 10)]

def hexDigit (n : Nat) : Char := if n < 10 then Char.ofNat (48 + n) else Char.ofNat (87 + n)

/-- `{byte:02x}` -/
def hex2 (b : Nat) : List Char := [hexDigit (b / 16), hexDigit (b % 16)]

def joinWith (sep : List Char) : List (List Char) → List Char
  | [] => []
  | [x] => x
  | x :: y :: r => x ++ sep ++ joinWith sep (y :: r)

/-- `Sha256Digest::fmt(BytesArray)`: `format!("{:?}", [u8; 32])` -/
def fmtBytesArray (d : Bytes) : List Char :=
  ['['] ++ joinWith [',', ' '] (d.map fun b => dec3 b.toNat) ++ [']']

/-- `Sha256Digest::fmt(DottedHex)` -/
def fmtDottedHex (d : Bytes) : List Char := joinWith [':'] (d.map fun b => hex2 b.toNat)

/-- `str::split(c)` -/
def splitOn (c : Char) : List Char → List (List Char)
  | [] => [[]]
  | x :: r =>
    match splitOn c r with
    | [] => [[]]       -- unreachable
    | h :: t => if x = c then [] :: h :: t else (x :: h) :: t

def isSpace (c : Char) : Bool := c = ' ' || c = '\t' || c = '\n' || c = '\r' || c.toNat = 11 || c.toNat = 12

def trim (s : List Char) : List Char :=
  ((s.dropWhile isSpace).reverse.dropWhile isSpace).reverse

def digitVal (radix : Nat) (c : Char) : Option Nat :=
  let v := if '0' ≤ c ∧ c ≤ '9' then some (c.toNat - 48)
    else if 'a' ≤ c ∧ c ≤ 'z' then some (c.toNat - 87)
    else if 'A' ≤ c ∧ c ≤ 'Z' then some (c.toNat - 55)
    else none
  match v with
  | some d => if d < radix then some d else none
  | none => none

/-- `u8::from_str_radix(s, radix)` / `str::parse::<u8>`: optional `+`, at least one digit,
value at most 255 -/
def parseU8 (radix : Nat) (s : List Char) : Option Nat :=
  let digits := match s with | '+' :: r => r | r => r
  if digits.isEmpty then none
  else
    digits.foldl (fun acc c =>
      match acc, digitVal radix c with
      | some a, some d => if a * radix + d ≤ 255 then some (a * radix + d) else none
      | _, _ => none) (some 0)

def allSome : List (Option Nat) → Option (List Nat)
  | [] => some []
  | none :: _ => none
  | some x :: r => (allSome r).map (x :: ·)

/-- `from_str_fmt(s, BytesArray)` -/
def parseBytesArray (s : List Char) : Option Bytes :=
  let body := ((s.dropWhile (· = '[')).reverse.dropWhile (· = ']')).reverse
  match allSome ((splitOn ',' body).map fun p => parseU8 10 (trim p)) with
  | some l => if l.length = 32 then some (l.map UInt8.ofNat) else none
  | none => none

/-- `from_str_fmt(s, DottedHex)` -/
def parseDottedHex (s : List Char) : Option Bytes :=
  match allSome ((splitOn ':' s).map fun p => parseU8 16 (trim p)) with
  | some l => if l.length = 32 then some (l.map UInt8.ofNat) else none
  | none => none

/-- `impl FromStr for Sha256Digest`: BytesArray, or else DottedHex -/
def fromStr (s : List Char) : Option Bytes :=
  match parseBytesArray s with
  | some d => some d
  | none => parseDottedHex s

end DigestText

namespace Config

inductive Preset | localV4 | localV6 | localDual | inAddrAnyV4 | inAddrAnyV6 | inAddrAnyDual
  deriving DecidableEq, Repr

inductive Family | v4 | v6 deriving DecidableEq, Repr
inductive Addr | loopback | unspecified deriving DecidableEq, Repr
inductive DualStack | osDefault | deny | allow deriving DecidableEq, Repr
/-- what `bind_socket` does to IPV6_V6ONLY -/
inductive V6Only | unset | setTrue | setFalse deriving DecidableEq, Repr

def presetName : Preset → String
  | .localV4 => "LocalV4" | .localV6 => "LocalV6" | .localDual => "LocalDual"
  | .inAddrAnyV4 => "InAddrAnyV4" | .inAddrAnyV6 => "InAddrAnyV6" | .inAddrAnyDual => "InAddrAnyDual"

/-- `IpBindConfig::into_ip` (table regenerated from config.rs) -/
def intoIp (p : Preset) : Option (Family × Addr) :=
  match Generated.BIND_IP.find? (fun r => r.1 == presetName p) with
  | some (_, fam, a) =>
    some (if fam == "Ipv4Addr" then .v4 else .v6, if a == "LOCALHOST" then .loopback else .unspecified)
  | none => none

/-- `IpBindConfig::into_dual_stack_config` -/
def intoDualStack (p : Preset) : Option DualStack :=
  match Generated.BIND_DUAL.find? (fun r => r.1 == presetName p) with
  | some (_, d) => some (if d == "OsDefault" then .osDefault else if d == "Deny" then .deny else .allow)
  | none => none

/-- `bind_socket`: socket option per dual-stack choice -/
def sockopt (d : DualStack) : Option V6Only :=
  let name := match d with | .osDefault => "OsDefault" | .deny => "Deny" | .allow => "Allow"
  match Generated.BIND_SOCKOPT.find? (fun r => r.1 == name) with
  | some (_, v) => some (if v == "unset" then .unset else if v == "true" then .setTrue else .setFalse)
  | none => none

/-- `with_bind_config`: a v4 address goes through `with_bind_address` (no socket option), a v6
one through `with_bind_address_v6` with the preset's dual-stack choice -/
def bindPlan (p : Preset) : Option (Family × Addr × V6Only) :=
  match intoIp p, intoDualStack p with
  | some (.v4, a), _ => some (.v4, a, .unset)
  | some (.v6, a), some d => (sockopt d).map fun v => (.v6, a, v)
  | _, _ => none

/-- `max_idle_timeout(Some(d))`: quinn's `IdleTimeout::try_from(Duration)` accepts iff the
milliseconds fit a QUIC varint -/
def idleTimeoutAccepted (millis : Nat) : Bool := millis < 2 ^ 62

end Config
