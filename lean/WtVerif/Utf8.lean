/-
`std::str::from_utf8` validity (Unicode 15, Table 3-7 "Well-Formed UTF-8 Byte Sequences").
Rust `String`s are modelled as their UTF-8 bytes; this predicate is where the code calls
`String::from_utf8` / `str::from_utf8`.
-/
import WtVerif.Varint

namespace Utf8

def cont (b : UInt8) : Bool := 0x80 ≤ b.toNat && b.toNat ≤ 0xBF

def valid : Bytes → Bool
  | [] => true
  | b0 :: r =>
    let x := b0.toNat
    if x ≤ 0x7F then valid r
    else if 0xC2 ≤ x ∧ x ≤ 0xDF then
      match r with
      | b1 :: r' => cont b1 && valid r'
      | _ => false
    else if x = 0xE0 then
      match r with
      | b1 :: b2 :: r' => (0xA0 ≤ b1.toNat && b1.toNat ≤ 0xBF) && cont b2 && valid r'
      | _ => false
    else if (0xE1 ≤ x ∧ x ≤ 0xEC) ∨ x = 0xEE ∨ x = 0xEF then
      match r with
      | b1 :: b2 :: r' => cont b1 && cont b2 && valid r'
      | _ => false
    else if x = 0xED then
      match r with
      | b1 :: b2 :: r' => (0x80 ≤ b1.toNat && b1.toNat ≤ 0x9F) && cont b2 && valid r'
      | _ => false
    else if x = 0xF0 then
      match r with
      | b1 :: b2 :: b3 :: r' => (0x90 ≤ b1.toNat && b1.toNat ≤ 0xBF) && cont b2 && cont b3 && valid r'
      | _ => false
    else if 0xF1 ≤ x ∧ x ≤ 0xF3 then
      match r with
      | b1 :: b2 :: b3 :: r' => cont b1 && cont b2 && cont b3 && valid r'
      | _ => false
    else if x = 0xF4 then
      match r with
      | b1 :: b2 :: b3 :: r' => (0x80 ≤ b1.toNat && b1.toNat ≤ 0x8F) && cont b2 && cont b3 && valid r'
      | _ => false
    else false

end Utf8
