/-
Model of `wtransport-proto/src/varint.rs` and of the `octets` varint get/put used by
`wtransport-proto/src/bytes.rs` (`BufferReader::get_varint`, `BufferWriter::put_varint`,
`impl BytesReader for &[u8]`).

Protocol integers are `Nat`; the bound `v < 2^62` (`VarInt::MAX`) is an explicit hypothesis
wherever the Rust type guarantees it.
-/
import WtVerif.Generated.Consts

abbrev Bytes := List UInt8

deriving instance DecidableEq for Except

namespace Varint

/-- `VarInt::MAX` + 1 -/
def bound : Nat := Generated.VARINT_MAX + 1

/-- `VarInt::size` -/
def size (v : Nat) : Nat :=
  if v ≤ Generated.VARINT_SIZE_T1 then 1
  else if v ≤ Generated.VARINT_SIZE_T2 then 2
  else if v ≤ Generated.VARINT_SIZE_T4 then 4
  else 8

/-- `VarInt::parse_size(first)`: `match first >> 6 { 0 => 1, 1 => 2, 2 => 4, 3 => 8 }` -/
def parseSizeSrc (b : UInt8) : Nat :=
  match b.toNat >>> Generated.VARINT_PARSE_SHIFT with
  | 0 => Generated.VARINT_PARSE_0
  | 1 => Generated.VARINT_PARSE_1
  | 2 => Generated.VARINT_PARSE_2
  | _ => Generated.VARINT_PARSE_3

/-- the same function in the arithmetic form the proofs use (`parseSize_eq_src` ties them) -/
def parseSize (b : UInt8) : Nat :=
  if b.toNat < 64 then 1 else if b.toNat < 128 then 2 else if b.toNat < 192 then 4 else 8

/-- byte `k` (little-endian index) of `v` -/
def b (v k : Nat) : UInt8 := UInt8.ofNat (v / 256 ^ k % 256)

/-- `octets::OctetsMut::put_varint` (length chosen by `varint_len`, big-endian, tag in the
top two bits). -/
def enc (v : Nat) : Bytes :=
  if v ≤ 63 then [UInt8.ofNat v]
  else if v ≤ 16383 then [UInt8.ofNat (64 + v / 256), b v 0]
  else if v ≤ 1073741823 then [UInt8.ofNat (128 + v / 256^3), b v 2, b v 1, b v 0]
  else [UInt8.ofNat (192 + v / 256^7), b v 6, b v 5, b v 4, b v 3, b v 2, b v 1, b v 0]

/-- big-endian value of a byte list -/
def beVal : Bytes → Nat
  | [] => 0
  | x :: r => x.toNat * 256 ^ r.length + beVal r

/-- value of an exactly-sized varint buffer: top two bits of the first byte masked -/
def exactVal : Bytes → Nat
  | [] => 0
  | x :: r => (x.toNat % 64) * 256 ^ r.length + beVal r

/-- `impl BytesReader for &[u8]`/`BufferReader::get_varint`: `first()?`, `parse_size`,
`get(..n)?`, parse, advance. `none` = not enough bytes (offset not advanced). -/
def dec (bs : Bytes) : Option (Nat × Bytes) :=
  match bs with
  | [] => none
  | b0 :: _ =>
    let n := parseSize b0
    if bs.length < n then none else some (exactVal (bs.take n), bs.drop n)

end Varint
