#!/bin/sh
# Build the framework from files on disk only (offline).
set -e
cd "$(dirname "$0")"
export CARGO_NET_OFFLINE=true
python3 tools/gen_lean.py /repo lean/WtVerif/Generated
(cd lean && lake build WtVerif wtdriver)
[ -f harness/Cargo.lock ] || cp /repo/Cargo.lock harness/Cargo.lock
export RUSTFLAGS="--cfg wtransport_verif"
(cd harness && cargo build --offline --bin codec && cargo build --offline --release --bin codec)
(cd harness && cargo build --offline --bin e2e)
