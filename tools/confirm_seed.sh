#!/bin/bash
# confirm a seeded change: run its demonstration in the agent's worktree with and without the change
# usage: confirm_seed.sh <PROP>_<n>
set -u
id=$1; wt=/tmp/wt_$id; out=/tmp/seeded_out/$id
cd $wt || exit 2
export CARGO_NET_OFFLINE=true CARGO_TARGET_DIR=$wt/target
demo=$(git status --porcelain -uall | awk '$1=="??"{print $2}' | grep -E 'tests/|examples/' | head -1)
[ -z "$demo" ] && { echo "$id: no demo file found"; exit 2; }
crate=$(echo $demo | cut -d/ -f1); name=$(basename $demo .rs)
feat=""; [ "$crate" = "wtransport-proto" ] && feat="--features async"; [ "$crate" = "wtransport" ] && feat="--features quinn"
run() { if echo $demo | grep -q examples/; then cargo run --offline -q -p $crate $feat --example $name 2>&1 | tail -15; else cargo test --offline -q -p $crate $feat --test $name 2>&1 | grep -E "^test result|panicked|FAILED|failed" | head -8; fi; }
echo "== $id with change ($demo)"; run; rc1=$?
git apply -R $out/patch.diff || { echo "cannot reverse patch"; exit 2; }
echo "== $id original"; run
git apply $out/patch.diff
