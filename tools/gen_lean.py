#!/usr/bin/env python3
"""Translator: /repo sources -> lean/WtVerif/Generated/*.lean

Every numeric constant, registry value and table the properties talk about is re-extracted
from the Rust sources on every run, so the theorems are re-checked against what the code says
*now*.  A missing anchor is a broken tie and aborts with exit code 3 (the orchestrator reports
it as a proof obligation that no longer checks).

Usage: gen_lean.py <repo> <outdir> [--json <file>]
"""
import json
import os
import re
import sys


class Missing(Exception):
    pass


def rd(repo, rel):
    p = os.path.join(repo, rel)
    try:
        with open(p, encoding="utf-8") as f:
            return f.read()
    except OSError as e:
        raise Missing(f"{rel}: cannot read ({e})")


def num(s):
    s = s.strip().replace("_", "")
    s = re.sub(r"(u8|u16|u32|u64|usize|i64|i32)$", "", s)
    return int(s, 0)


def need(m, what):
    if not m:
        raise Missing(what)
    return m


def strip_tests(src):
    i = src.find("#[cfg(test)]\nmod tests")
    return src if i < 0 else src[:i]


def consts_in_mod(src, modname, rel):
    m = need(re.search(r"mod\s+" + modname + r"\s*\{(.*?)\n\}", src, re.S), f"{rel}: mod {modname}")
    out = {}
    for name, val in re.findall(r"pub const (\w+): VarInt = VarInt::from_u32\(([^)]+)\);", m.group(1)):
        out[name] = num(val)
    if not out:
        raise Missing(f"{rel}: no constants in mod {modname}")
    return out


def grease(src, fn, rel):
    m = need(re.search(r"fn " + fn + r"\(id: VarInt\) -> bool \{\s*id\.into_inner\(\) >= (\w+) && \(\(id\.into_inner\(\) - (\w+)\) % (\w+) == 0\)", src), f"{rel}: {fn} formula")
    a, b, c = num(m.group(1)), num(m.group(2)), num(m.group(3))
    if a != b:
        raise Missing(f"{rel}: {fn} uses two different bases {a} {b}")
    return a, c


def lean_str_bytes(s):
    return "[" + ", ".join(str(b) for b in s.encode("utf-8")) + "]"


def rust_str(lit):
    # decode a Rust string literal body (only the simple escapes used in the sources)
    return bytes(lit, "utf-8").decode("unicode_escape") if "\\" in lit else lit


def huffman_root(repo):
    """source directory of the httlib-huffman version the workspace links (Cargo.lock)"""
    lock = rd(repo, "Cargo.lock")
    m = need(re.search(r'name = "httlib-huffman"\nversion = "([^"]+)"', lock), "Cargo.lock: httlib-huffman")
    ver = m.group(1)
    import glob
    cands = glob.glob(os.path.expanduser(f"~/.cargo/registry/src/*/httlib-huffman-{ver}"))
    if not cands:
        raise Missing(f"httlib-huffman-{ver} sources not found in the cargo registry")
    return cands[0]


def main():
    repo = sys.argv[1]
    outdir = sys.argv[2]
    jsonout = None
    if "--json" in sys.argv:
        jsonout = sys.argv[sys.argv.index("--json") + 1]
    ex = {}   # name -> value, echoed into the evidence
    L = []    # Lean lines for Consts.lean

    def c(name, val, comment=""):
        ex[name] = val
        L.append(f"abbrev {name} : Nat := {val}" + (f"  -- {comment}" if comment else ""))

    # ---- varint.rs
    rel = "wtransport-proto/src/varint.rs"
    s = strip_tests(rd(repo, rel))
    m = need(re.search(r"pub const MAX: Self = Self\(([\d_]+)\);", s), f"{rel}: VarInt::MAX")
    c("VARINT_MAX", num(m.group(1)), "VarInt::MAX")
    m = need(re.search(r"pub const MAX_SIZE: usize = (\d+);", s), f"{rel}: MAX_SIZE")
    c("VARINT_MAX_SIZE", num(m.group(1)))
    body = need(re.search(r"pub const fn size\(self\) -> usize \{(.*?)\n    \}", s, re.S), f"{rel}: size()").group(1)
    arms = re.findall(r"self\.0 <= ([\d_]+) \{\s*(\d+)", body)
    if [a[1] for a in arms] != ["1", "2", "4", "8"]:
        raise Missing(f"{rel}: size() arms changed: {arms}")
    c("VARINT_SIZE_T1", num(arms[0][0]))
    c("VARINT_SIZE_T2", num(arms[1][0]))
    c("VARINT_SIZE_T4", num(arms[2][0]))
    c("VARINT_SIZE_T8", num(arms[3][0]))
    body = need(re.search(r"pub const fn parse_size\(first: u8\) -> usize \{(.*?)\n    \}", s, re.S), f"{rel}: parse_size()").group(1)
    sh = need(re.search(r"match first >> (\d+)", body), f"{rel}: parse_size shift")
    c("VARINT_PARSE_SHIFT", num(sh.group(1)))
    parms = re.findall(r"(\d+) => (\d+),", body)
    if [p[0] for p in parms] != ["0", "1", "2", "3"]:
        raise Missing(f"{rel}: parse_size arms changed: {parms}")
    for tag, sz in parms:
        c(f"VARINT_PARSE_{tag}", num(sz))

    # ---- frame.rs
    rel = "wtransport-proto/src/frame.rs"
    s = strip_tests(rd(repo, rel))
    ids = consts_in_mod(s, "frame_kind_ids", rel)
    for k in ("DATA", "HEADERS", "SETTINGS", "WEBTRANSPORT_STREAM"):
        if k not in ids:
            raise Missing(f"{rel}: frame_kind_ids::{k}")
        c("FRAME_" + k, ids[k])
    m = need(re.search(r"const MAX_PARSE_PAYLOAD_ALLOWED: usize = ([\d_]+);", s), f"{rel}: MAX_PARSE_PAYLOAD_ALLOWED")
    c("FRAME_MAX_PARSE_PAYLOAD", num(m.group(1)))
    gb, gs = grease(s, "is_id_exercise", rel)
    c("GREASE_BASE", gb, "frame.rs is_id_exercise")
    c("GREASE_STEP", gs)
    # parse() arm order
    body = need(re.search(r"const fn parse\(id: VarInt\) -> Option<Self> \{(.*?)\n    \}", s, re.S), f"{rel}: FrameKind::parse").group(1)
    order = re.findall(r"frame_kind_ids::(\w+) => Some\(FrameKind::(\w+)\)", body)
    want = [("DATA", "Data"), ("HEADERS", "Headers"), ("SETTINGS", "Settings"), ("WEBTRANSPORT_STREAM", "WebTransport")]
    if order != want:
        raise Missing(f"{rel}: FrameKind::parse arms changed: {order}")
    body = need(re.search(r"const fn id\(self\) -> VarInt \{(.*?)\n    \}", s, re.S), f"{rel}: FrameKind::id").group(1)
    order = re.findall(r"FrameKind::(\w+) => frame_kind_ids::(\w+)", body)
    if order != [(b, a) for a, b in want]:
        raise Missing(f"{rel}: FrameKind::id arms changed: {order}")

    # ---- stream_header.rs
    rel = "wtransport-proto/src/stream_header.rs"
    s = strip_tests(rd(repo, rel))
    ids = consts_in_mod(s, "stream_type_ids", rel)
    for k in ("CONTROL_STREAM", "QPACK_ENCODER_STREAM", "QPACK_DECODER_STREAM", "WEBTRANSPORT_STREAM"):
        if k not in ids:
            raise Missing(f"{rel}: stream_type_ids::{k}")
        c("STREAM_" + k, ids[k])
    m = need(re.search(r"pub const MAX_SIZE: usize = (\d+);", s), f"{rel}: MAX_SIZE")
    c("STREAM_HEADER_MAX_SIZE", num(m.group(1)))
    gb, gs = grease(s, "is_id_exercise", rel)
    c("STREAM_GREASE_BASE", gb)
    c("STREAM_GREASE_STEP", gs)
    body = need(re.search(r"const fn parse\(id: VarInt\) -> Option<Self> \{(.*?)\n    \}", s, re.S), f"{rel}: StreamKind::parse").group(1)
    order = re.findall(r"stream_type_ids::(\w+) => Some\(StreamKind::(\w+)\)", body)
    want = [("CONTROL_STREAM", "Control"), ("QPACK_ENCODER_STREAM", "QPackEncoder"), ("QPACK_DECODER_STREAM", "QPackDecoder"), ("WEBTRANSPORT_STREAM", "WebTransport")]
    if order != want:
        raise Missing(f"{rel}: StreamKind::parse arms changed: {order}")
    body = need(re.search(r"const fn id\(self\) -> VarInt \{(.*?)\n    \}", s, re.S), f"{rel}: StreamKind::id").group(1)
    order = re.findall(r"StreamKind::(\w+) => stream_type_ids::(\w+)", body)
    if order != [(b, a) for a, b in want]:
        raise Missing(f"{rel}: StreamKind::id arms changed: {order}")

    # ---- settings.rs
    rel = "wtransport-proto/src/settings.rs"
    s = strip_tests(rd(repo, rel))
    ids = consts_in_mod(s, "setting_ids", rel)
    setting_names = ["SETTINGS_QPACK_MAX_TABLE_CAPACITY", "SETTINGS_MAX_FIELD_SECTION_SIZE", "SETTINGS_QPACK_BLOCKED_STREAMS",
                     "SETTINGS_ENABLE_CONNECT_PROTOCOL", "SETTINGS_H3_DATAGRAM", "SETTINGS_ENABLE_WEBTRANSPORT",
                     "SETTINGS_WEBTRANSPORT_MAX_SESSIONS"]
    for k in setting_names:
        if k not in ids:
            raise Missing(f"{rel}: setting_ids::{k}")
        c(k, ids[k])
    m = need(re.search(r"fn is_reserved\(id: VarInt\) -> bool \{\s*matches!\(id\.into_inner\(\), ([^)]+)\)", s), f"{rel}: is_reserved")
    reserved = [num(x) for x in m.group(1).split("|")]
    ex["SETTINGS_RESERVED"] = reserved
    L.append("def SETTINGS_RESERVED : List Nat := [" + ", ".join(map(str, reserved)) + "]")
    gb, gs = grease(s, "is_exercise", rel)
    c("SETTINGS_GREASE_BASE", gb)
    c("SETTINGS_GREASE_STEP", gs)
    # SettingId::parse / id arm tables
    variants = ["QPackMaxTableCapacity", "MaxFieldSectionSize", "QPackBlockedStreams", "EnableConnectProtocol",
                "H3Datagram", "EnableWebTransport", "WebTransportMaxSessions"]
    body = need(re.search(r"fn parse\(id: VarInt\) -> Result<Self, ParseError> \{(.*?)\n    \}", s, re.S), f"{rel}: SettingId::parse").group(1)
    order = re.findall(r"setting_ids::(\w+) => \{?\s*Ok\(Self::(\w+)\)", body)
    if order != list(zip(setting_names, variants)):
        raise Missing(f"{rel}: SettingId::parse arms changed: {order}")
    if not re.search(r"if Self::is_reserved\(id\) \{\s*return Err\(ParseError::ReservedSetting\);\s*\}\s*if Self::is_exercise\(id\) \{\s*Ok\(Self::Exercise\(id\)\)", body):
        raise Missing(f"{rel}: SettingId::parse reserved/exercise order changed")
    body = need(re.search(r"const fn id\(self\) -> VarInt \{(.*?)\n    \}", s, re.S), f"{rel}: SettingId::id").group(1)
    order = re.findall(r"Self::(\w+) => setting_ids::(\w+)", body)
    if order != list(zip(variants, setting_names)):
        raise Missing(f"{rel}: SettingId::id arms changed: {order}")

    # ---- error.rs
    rel = "wtransport-proto/src/error.rs"
    s = rd(repo, rel)
    codes = {}
    for modname in ("h3_error_codes", "qpack_error_codes", "wt_error_codes"):
        codes.update(consts_in_mod(s, modname, rel))
    body = need(re.search(r"pub fn to_code\(self\) -> VarInt \{(.*?)\n    \}", s, re.S), f"{rel}: to_code").group(1)
    arms = re.findall(r"ErrorCode::(\w+) => \{?\s*\w+::(\w+)", body)
    if len(arms) < 15:
        raise Missing(f"{rel}: to_code arms: {arms}")
    L.append("/-- `ErrorCode::to_code`, arm by arm: (variant, value) -/")
    L.append("def ERROR_CODES : List (String × Nat) := [" + ", ".join(f'("{v}", {codes[cn]})' for v, cn in arms) + "]")
    ex["ERROR_CODES"] = {v: codes[cn] for v, cn in arms}
    for v, cn in arms:
        L.append(f"abbrev ERR_{v} : Nat := {codes[cn]}")

    # ---- capsule
    rel = "wtransport-proto/src/capsule/mod.rs"
    s = strip_tests(rd(repo, rel))
    ids = consts_in_mod(s, "capsule_types", rel)
    c("CAPSULE_CLOSE_WEBTRANSPORT_SESSION", ids.get("CAPSULE_TYPE_CLOSE_WEBTRANSPORT_SESSION") if "CAPSULE_TYPE_CLOSE_WEBTRANSPORT_SESSION" in ids else (_ for _ in ()).throw(Missing(f"{rel}: capsule type")))
    rel = "wtransport-proto/src/capsule/close_wt_session.rs"
    s = rd(repo, rel)
    m = need(re.search(r"const MAX_REASON_LEN: usize = ([\d_]+);", s), f"{rel}: MAX_REASON_LEN")
    c("CAPSULE_MAX_REASON_LEN", num(m.group(1)))
    m = need(re.search(r"payload\.len\(\) < (\d+) \|\| payload\.len\(\) > (\d+) \+ MAX_REASON_LEN", s), f"{rel}: length test")
    c("CAPSULE_CODE_LEN", num(m.group(1)))
    if m.group(1) != m.group(2):
        raise Missing(f"{rel}: length test uses {m.group(1)} and {m.group(2)}")
    need(re.search(r"u32::from_be_bytes\(payload\[\.\.4\]", s), f"{rel}: big-endian u32 code")

    # ---- ids.rs
    rel = "wtransport-proto/src/ids.rs"
    s = strip_tests(rd(repo, rel))
    m = need(re.search(r"pub const MAX: QStreamId =\s*unsafe \{ Self\(VarInt::from_u64_unchecked\(([\d_]+)\)\) \};", s), f"{rel}: QStreamId::MAX")
    c("QSTREAM_MAX", num(m.group(1)))
    for nm in ("MAX", "MIN", "OK", "FORBIDDEN", "NOT_FOUND", "TOO_MANY_REQUESTS"):
        m = need(re.search(r"pub const " + nm + r": Self = Self\((\d+)\);", s[s.find("pub struct StatusCode"):]), f"{rel}: StatusCode::{nm}")
        c("STATUS_" + nm, num(m.group(1)))
    m = need(re.search(r"pub fn is_successful\(self\) -> bool \{\s*\((\d+)\.\.(\d+)\)\.contains", s), f"{rel}: is_successful")
    c("STATUS_SUCCESS_LO", num(m.group(1)))
    c("STATUS_SUCCESS_HI", num(m.group(2)))

    # ---- session.rs
    rel = "wtransport-proto/src/session.rs"
    s = strip_tests(rd(repo, rel))
    m = need(re.search(r"pub const RESERVED_HEADERS: &'static \[&'static str\] =\s*&\[(.*?)\];", s, re.S), f"{rel}: RESERVED_HEADERS")
    reserved_h = re.findall(r'"([^"]*)"', m.group(1))
    ex["RESERVED_HEADERS"] = reserved_h
    L.append("def RESERVED_HEADERS : List String := [" + ", ".join(f'"{h}"' for h in reserved_h) + "]")
    m = need(re.search(r"let headers = \[(.*?)\]\s*\.into_iter\(\)", s, re.S), f"{rel}: SessionRequest::new header list")
    pairs = re.findall(r'\("([^"]+)", ("[^"]*"|[^,\n]+?)\),?\n', m.group(1))
    req = []
    for k, v in pairs:
        v = v.strip()
        req.append((k, v[1:-1] if v.startswith('"') else "<" + v + ">"))
    ex["REQUEST_HEADERS"] = req
    L.append("def REQUEST_HEADERS : List (String × String) := [" + ", ".join(f'("{k}", "{v}")' for k, v in req) + "]")

    def lb(t):
        return "[" + ", ".join(str(b) for b in t.encode("utf-8")) + "]"
    L.append("def RESERVED_HEADERS_BYTES : List (List UInt8) := [" + ", ".join(lb(h) for h in reserved_h) + "]")
    L.append("def REQUEST_HEADERS_BYTES : List (List UInt8 × List UInt8) := [" +
             ", ".join(f"({lb(k)}, {lb(v) if not v.startswith('<') else '[]'})" for k, v in req) + "]")
    # SessionRequest::try_from: the checks in source order (key, expected literal or none)
    body = need(re.search(r"impl TryFrom<Headers> for SessionRequest \{(.*?)\n\}\n", s, re.S), f"{rel}: SessionRequest::try_from").group(1)
    checks = []
    for mm in re.finditer(r'\.get\("([^"]+)"\)\s*\.ok_or\(HeadersParseError::(\w+)\)\?(\s*!= "([^"]*)"\s*\{\s*return Err\(HeadersParseError::(\w+)\))?', body):
        checks.append((mm.group(1), mm.group(2), mm.group(4), mm.group(5)))
    if [c[0] for c in checks] != [":method", ":scheme", ":protocol", ":authority", ":path"]:
        raise Missing(f"{rel}: SessionRequest::try_from checks changed: {checks}")
    ex["REQUEST_TRYFROM_CHECKS"] = checks
    L.append("/-- `SessionRequest::try_from`: (field, required value or [] when only presence is required) in source order -/")
    L.append("def REQUEST_TRYFROM_CHECKS : List (List UInt8 × Option (List UInt8)) := [" +
             ", ".join(f"({lb(c[0])}, {'some ' + lb(c[2]) if c[2] is not None else 'none'})" for c in checks) + "]")
    m2 = need(re.search(r'\.get\(":status"\)\s*\.ok_or\(HeadersParseError::MissingStatusCode\)', s), f"{rel}: SessionResponse::try_from :status")
    L.append("def STATUS_HEADER_BYTES : List UInt8 := " + lb(":status"))

    # ---- lib.rs
    rel = "wtransport-proto/src/lib.rs"
    s = rd(repo, rel)
    m = need(re.search(r'pub const WEBTRANSPORT_ALPN: &\[u8; (\d+)\] = b"([^"]*)";', s), f"{rel}: WEBTRANSPORT_ALPN")
    ex["WEBTRANSPORT_ALPN"] = m.group(2)
    L.append(f'def WEBTRANSPORT_ALPN : String := "{m.group(2)}"')

    # ---- driver/mod.rs queue capacities
    rel = "wtransport/src/driver/mod.rs"
    s = rd(repo, rel)
    for nm, pat in (("CAP_READY_SETTINGS", r"let ready_settings = mpsc::channel\((\d+)\);"),
                    ("CAP_READY_SESSIONS", r"let ready_sessions = bichannel\((\d+)\);"),
                    ("CAP_READY_UNI_WT", r"let ready_uni_wt_streams = mpsc::channel\((\d+)\);"),
                    ("CAP_READY_BI_WT", r"let ready_bi_wt_streams = mpsc::channel\((\d+)\);"),
                    ("CAP_READY_DATAGRAMS", r"let ready_datagrams = mpsc::channel\((\d+)\);"),
                    ("CAP_READY_UNI_H3", r"let mut ready_uni_h3_streams = mpsc::channel\((\d+)\);"),
                    ("CAP_READY_BI_H3", r"let mut ready_bi_h3_streams = mpsc::channel\((\d+)\);")):
        m = need(re.search(pat, s), f"{rel}: {nm}")
        c(nm, num(m.group(1)))

    # ---- driver/mod.rs: is the hand-off slot reserved before the preamble is read?
    # (structure of `accept_uni` / `accept_bi`: a `reserve_owned()`/`reserve()` that precedes
    # `tokio::spawn` means the spawned preamble task holds the slot while it waits for bytes)
    for nm, fn, nxt in (("HANDOFF_RESERVE_FIRST_UNI", "accept_uni", "accept_bi"),
                        ("HANDOFF_RESERVE_FIRST_BI", "accept_bi", "accept_datagram")):
        m = need(re.search(r"async fn " + fn + r"\(\s*quic_connection: &quinn::Connection,(.*?)async fn " + nxt + r"\(", s, re.S), f"{rel}: fn {fn}")
        body = m.group(1)
        sp = body.find("tokio::spawn")
        if sp < 0:
            raise Missing(f"{rel}: {fn}: tokio::spawn of the preamble task")
        before, after = body[:sp], body[sp:]
        first = bool(re.search(r"\.reserve(_owned)?\(\)", before))
        if not first and not re.search(r"\.send\(.*?\)\s*\.await", after, re.S):
            raise Missing(f"{rel}: {fn}: neither a reservation before the task nor an awaited send inside it")
        ex[nm] = first
        L.append(f"/-- `{fn}`: a queue slot is reserved before the preamble task is spawned -/")
        L.append(f"abbrev {nm} : Bool := {'true' if first else 'false'}")

    # ---- driver/mod.rs: can the worker loop park inside a select handler?
    # `run_impl`'s `loop { tokio::select! { pat = fut => { body } ... } }`: a handler body runs to
    # completion before the loop polls anything again, so an `.await` inside one (e.g. an awaited
    # `send` on a bounded queue the application may leave full) stops every branch of the worker.
    m = need(re.search(r"async fn run_impl\(&mut self\).*?tokio::select!\s*\{", s, re.S), f"{rel}: run_impl select loop")
    i = m.end()
    depth, j = 1, i
    while j < len(s) and depth > 0:
        depth += {"{": 1, "}": -1}.get(s[j], 0)
        j += 1
    if depth != 0:
        raise Missing(f"{rel}: run_impl: unbalanced select block")
    sel = s[i:j - 1]
    bodies, k = [], 0
    while True:
        a = re.compile(r"=>\s*\{").search(sel, k)
        if not a:
            break
        # only arms at depth 0 of the select block
        pre = sel[:a.start()]
        if pre.count("{") != pre.count("}"):
            k = a.end()
            continue
        d, e = 1, a.end()
        while e < len(sel) and d > 0:
            d += {"{": 1, "}": -1}.get(sel[e], 0)
            e += 1
        bodies.append(sel[a.end():e - 1])
        k = e
    if len(bodies) < 5:
        raise Missing(f"{rel}: run_impl: select arms not recognised ({len(bodies)})")
    await_free = not any(re.search(r"\.await\b", re.sub(r"//[^\n]*", "", b)) for b in bodies)
    ex["WORKER_SELECT_ARMS"] = len(bodies)
    ex["WORKER_HANDLERS_AWAIT_FREE"] = await_free
    L.append("/-- `run_impl`: no handler body of the worker's `select!` loop contains an `.await` -/")
    L.append(f"abbrev WORKER_HANDLERS_AWAIT_FREE : Bool := {'true' if await_free else 'false'}")
    # `accept_datagram`: is the queue slot held before a datagram is taken out of quinn?
    m = need(re.search(r"async fn accept_datagram\((.*?)\n        \}\n", s, re.S), f"{rel}: fn accept_datagram")
    body = m.group(1)
    rd_at = body.find("read_datagram()")
    if rd_at < 0:
        raise Missing(f"{rel}: accept_datagram: read_datagram()")
    slot_first = bool(re.search(r"\.reserve(_owned)?\(\)", body[:rd_at]))
    ex["DGRAM_SLOT_BEFORE_READ"] = slot_first
    L.append("/-- `accept_datagram`: the queue slot is reserved before the datagram is read from quinn -/")
    L.append(f"abbrev DGRAM_SLOT_BEFORE_READ : Bool := {'true' if slot_first else 'false'}")

    # ---- driver/: is anything in the driver time-based? (a deadline on a preamble task, a sleep
    # in the worker loop … would be a transition the hand-off model does not have)
    import glob as _glob
    timer_hits = []
    for fpath in sorted(_glob.glob(os.path.join(repo, "wtransport/src/driver/**/*.rs"), recursive=True)):
        txt = re.sub(r"//[^\n]*", "", strip_tests(open(fpath, encoding="utf-8").read()))
        for mm in re.finditer(r"tokio::time|\btimeout(_at)?\s*\(|\bsleep(_until)?\s*\(|\binterval(_at)?\s*\(|\bDuration\b|\bInstant\b", txt):
            timer_hits.append(os.path.relpath(fpath, repo) + ":" + mm.group(0).strip())
    if not _glob.glob(os.path.join(repo, "wtransport/src/driver/mod.rs")):
        raise Missing("wtransport/src/driver/mod.rs")
    # … and does anything limit the peer's streams across kinds? (a semaphore shared by the uni
    # and the bidi path couples the two hand-off pipelines the model keeps apart)
    sem_hits = []
    for fpath in sorted(_glob.glob(os.path.join(repo, "wtransport/src/driver/**/*.rs"), recursive=True)):
        txt = re.sub(r"//[^\n]*", "", strip_tests(open(fpath, encoding="utf-8").read()))
        if re.search(r"\bSemaphore\b", txt):
            sem_hits.append(os.path.relpath(fpath, repo))
    ex["DRIVER_SEMAPHORE_FREE"] = not sem_hits
    L.append("/-- nothing under wtransport/src/driver/ uses a semaphore -/")
    L.append(f"abbrev DRIVER_SEMAPHORE_FREE : Bool := {'true' if not sem_hits else 'false'}")
    ex["DRIVER_TIMER_HITS"] = timer_hits[:10]
    ex["DRIVER_TIMER_FREE"] = not timer_hits
    L.append("/-- nothing under wtransport/src/driver/ mentions a timer (tokio::time, timeout, sleep, interval, Duration, Instant) -/")
    L.append(f"abbrev DRIVER_TIMER_FREE : Bool := {'true' if not timer_hits else 'false'}")

    # ---- driver/streams/mod.rs: does `QuicSendStream::finish` always wait for `stopped()`?
    rel2 = "wtransport/src/driver/streams/mod.rs"
    s2 = rd(repo, rel2)
    m = need(re.search(r"pub async fn finish\(&mut self\) -> Result<\(\), StreamWriteError> \{(.*?)\n    \}", s2, re.S),
             f"{rel2}: QuicSendStream::finish")
    body = m.group(1)
    st = body.find("self.stopped().await")
    if st < 0:
        raise Missing(f"{rel2}: QuicSendStream::finish no longer awaits stopped()")
    early = bool(re.search(r"\breturn\b|\?\s*;|\?\s*$", body[:st], re.M))
    ex["FINISH_AWAITS_STOPPED"] = not early
    L.append("/-- `QuicSendStream::finish`: no path returns before `stopped().await` -/")
    L.append(f"abbrev FINISH_AWAITS_STOPPED : Bool := {'false' if early else 'true'}")

    # ---- driver/streams/mod.rs: which operations does each method of the stream wrappers invoke?
    # (`self.0.<op>(` = quinn's stream, `self.<m>(` = another wrapper method)
    def wrapper_calls(type_name):
        mm = need(re.search(r"\nimpl " + type_name + r" \{", s2), f"{rel2}: impl {type_name}")
        d, e = 1, mm.end()
        while e < len(s2) and d > 0:
            d += {"{": 1, "}": -1}.get(s2[e], 0)
            e += 1
        block = re.sub(r"//[^\n]*", "", s2[mm.end():e - 1])
        out = []
        for fm in re.finditer(r"\bfn (\w+)\s*(?:<[^>]*>)?\(", block):
            ob = block.find("{", fm.end())
            if ob < 0:
                continue
            d2, e2 = 1, ob + 1
            while e2 < len(block) and d2 > 0:
                d2 += {"{": 1, "}": -1}.get(block[e2], 0)
                e2 += 1
            body = block[ob + 1:e2 - 1]
            calls = []
            for cm in re.finditer(r"\bself\s*\.\s*(0\s*\.\s*)?(\w+)\s*\(", body):
                nm_ = ("0." if cm.group(1) else "") + cm.group(2)
                if nm_ not in calls:
                    calls.append(nm_)
            out.append((fm.group(1), calls))
        if not out:
            raise Missing(f"{rel2}: methods of {type_name}")
        return out
    for nm, ty in (("SEND_WRAPPER_CALLS", "QuicSendStream"), ("RECV_WRAPPER_CALLS", "QuicRecvStream")):
        wc = wrapper_calls(ty)
        ex[nm] = wc
        L.append(f"/-- `{ty}`: per method, the quinn operations (`0.x`) and wrapper methods it invokes, in source order -/")
        L.append(f"def {nm} : List (String × List String) := [" +
                 ", ".join('("' + m_ + '", [' + ", ".join(f'"{c_}"' for c_ in cs) + "])" for m_, cs in wc) + "]")

    # ---- driver/streams/{settings,connect}.rs: does the frame read in progress survive the drop of run()'s future?
    for nm, relx in (("CONTROL_READ_PERSISTS_SETTINGS", "wtransport/src/driver/streams/settings.rs"),
                     ("CONTROL_READ_PERSISTS_CONNECT", "wtransport/src/driver/streams/connect.rs")):
        sx = strip_tests(rd(repo, relx))
        # every place the stream's frame reader is started (awaited directly or handed to a
        # combinator such as `select!`): exactly one, the one inside the stored future
        reads = len(re.findall(r"\bstream\s*\.read_frame\(\)", re.sub(r"//[^\n]*", "", sx)))
        if reads == 0:
            raise Missing(f"{relx}: no `stream.read_frame()`")
        held = re.search(r"self\.reading\s*=\s*Some\(Box::pin\(async move \{[^}]*?stream\.read_frame\(\)\.await", sx, re.S)
        polled = re.search(r"self\s*\.reading\s*\.as_mut\(\)", sx)
        persists = bool(held and polled and reads == 1)
        ex[nm] = persists
        L.append(f"/-- `{relx.split('/')[-1]}`: the frame read in progress is stored in the stream holder, not in the future of `run` -/")
        L.append(f"abbrev {nm} : Bool := {'true' if persists else 'false'}")
        # … and once a frame has been read, does `run` reach its decision without awaiting anything
        # else? (an `.await` between a consumed frame and the returned decision sits in the future
        # the select loop drops: the frame's effect would be forgotten)
        atomic = None
        for mm in re.finditer(r"pub async fn run\(&mut self\) -> DriverError \{", sx):
            d, e = 1, mm.end()
            while e < len(sx) and d > 0:
                d += {"{": 1, "}": -1}.get(sx[e], 0)
                e += 1
            body = re.sub(r"//[^\n]*", "", sx[mm.end():e - 1])
            if "self.read_frame()" not in body:
                continue
            n_all = len(re.findall(r"\.await\b", body))
            n_read = len(re.findall(r"self\s*\.read_frame\(\)\s*\.await\b", body))
            atomic = n_read >= 1 and n_all == n_read
        if atomic is None:
            raise Missing(f"{relx}: `run` that calls self.read_frame()")
        nm2 = nm.replace("CONTROL_READ_PERSISTS", "CONTROL_DECISION_ATOMIC")
        ex[nm2] = atomic
        L.append(f"/-- `{relx.split('/')[-1]}`: `run` awaits nothing but `self.read_frame()` (no await between a consumed frame and the decision) -/")
        L.append(f"abbrev {nm2} : Bool := {'true' if atomic else 'false'}")

    # ---- tls.rs / config.rs: protocol versions, ALPN lists, pass-through of keep-alive and migration
    rel3 = "wtransport/src/tls.rs"
    s3 = strip_tests(rd(repo, rel3))
    vers = re.findall(r"\.with_protocol_versions\(&\[(.*?)\]\)", s3, re.S)
    if len(vers) < 2:
        raise Missing(f"{rel3}: with_protocol_versions of the default client and server TLS configurations")
    vers = [[v.strip().lstrip("&").split("::")[-1] for v in x.split(",") if v.strip()] for x in vers]
    ex["TLS_PROTOCOL_VERSIONS"] = vers
    L.append("/-- protocol versions of every default TLS configuration built in tls.rs -/")
    L.append("def TLS_PROTOCOL_VERSIONS : List (List String) := [" +
             ", ".join("[" + ", ".join(f'"{v}"' for v in x) + "]" for x in vers) + "]")
    alpns = re.findall(r"alpn_protocols\s*=\s*\[(.*?)\]\.to_vec\(\)", s3, re.S)
    if len(alpns) < 2:
        raise Missing(f"{rel3}: alpn_protocols of the default client and server TLS configurations")
    alpns = [[v.strip() for v in x.split(",") if v.strip()] for x in alpns]
    ex["TLS_ALPN_LISTS"] = alpns
    L.append("/-- ALPN lists of every default TLS configuration built in tls.rs -/")
    L.append("def TLS_ALPN_LISTS : List (List String) := [" +
             ", ".join("[" + ", ".join(f'"{v}"' for v in x) + "]" for x in alpns) + "]")
    rel4 = "wtransport/src/config.rs"
    s4 = strip_tests(rd(repo, rel4))
    ka = re.findall(r"pub fn keep_alive_interval\(mut self, interval: Option<Duration>\) -> Self \{\s*(.*?)\s*self\s*\}", s4, re.S)
    if len(ka) < 2:
        raise Missing(f"{rel4}: keep_alive_interval of both builders")
    ka_ok = all(re.fullmatch(r"self\.0\.transport_config\.keep_alive_interval\(interval\);", k.strip()) for k in ka)
    ex["KEEP_ALIVE_PASSED_UNCHANGED"] = ka_ok
    L.append("/-- both builders hand the keep-alive interval to quinn unchanged -/")
    L.append(f"abbrev KEEP_ALIVE_PASSED_UNCHANGED : Bool := {'true' if ka_ok else 'false'}")
    mg_set = re.search(r"pub fn allow_migration\(mut self, value: bool\) -> Self \{\s*self\.0\.migration = value;\s*self\s*\}", s4)
    mg_use = re.search(r"quic_config\.migration\(self\.0\.migration\);", s4)
    mg_def = re.search(r"migration: (true|false),", s4)
    need(mg_def, f"{rel4}: default of the migration setting")
    mg_ok = bool(mg_set and mg_use)
    ex["MIGRATION_PASSED_UNCHANGED"] = mg_ok
    ex["MIGRATION_DEFAULT"] = mg_def.group(1) == "true"
    L.append("/-- `allow_migration(v)` stores `v` and `build` hands exactly that to quinn -/")
    L.append(f"abbrev MIGRATION_PASSED_UNCHANGED : Bool := {'true' if mg_ok else 'false'}")
    L.append(f"abbrev MIGRATION_DEFAULT : Bool := {mg_def.group(1)}")

    # ---- driver/streams/settings.rs advertised settings
    rel = "wtransport/src/driver/streams/settings.rs"
    s = rd(repo, rel)
    m = need(re.search(r"let settings = Settings::builder\(\)(.*?)\.build\(\);", s, re.S), f"{rel}: advertised settings")
    calls = re.findall(r"\.(\w+)\((?:VarInt::from_u32\((\d+)\))?\)", m.group(1))
    adv = [(n, (num(v) if v else 1)) for n, v in calls]
    ex["ADVERTISED_SETTINGS"] = adv
    L.append("/-- builder calls of `LocalSettingsStream::empty` (name, value; the `enable_*` calls set 1) -/")
    L.append("def ADVERTISED_SETTINGS : List (String × Nat) := [" + ", ".join(f'("{n}", {v})' for n, v in adv) + "]")

    # ---- tls.rs
    rel = "wtransport/src/tls.rs"
    s = rd(repo, rel)
    m = need(re.search(r"const SELF_MAX_VALIDITY: time::Duration = time::Duration::days\((\d+)\);", s), f"{rel}: SELF_MAX_VALIDITY")
    c("TLS_SELF_MAX_VALIDITY_DAYS", num(m.group(1)))
    m = need(re.search(r"\.from_now_utc\(\)\s*\.validity_days\((\d+)\)", s), f"{rel}: default validity_days")
    c("TLS_DEFAULT_VALIDITY_DAYS", num(m.group(1)))

    # ---- config.rs bind tables
    rel = "wtransport/src/config.rs"
    s = rd(repo, rel)
    body = need(re.search(r"fn into_ip\(self\) -> IpAddr \{\s*match self \{(.*?)\n        \}", s, re.S), f"{rel}: into_ip").group(1)
    ip = re.findall(r"IpBindConfig::(\w+) => (Ipv[46]Addr)::(\w+)\.into\(\)", body)
    if len(ip) != 6:
        raise Missing(f"{rel}: into_ip arms: {ip}")
    ex["BIND_IP"] = ip
    L.append("def BIND_IP : List (String × String × String) := [" + ", ".join(f'("{a}", "{b}", "{d}")' for a, b, d in ip) + "]")
    body = need(re.search(r"fn into_dual_stack_config\(self\) -> Ipv6DualStackConfig \{\s*match self \{(.*?)\n        \}", s, re.S), f"{rel}: into_dual_stack_config").group(1)
    ds = []
    for lhs, rhs in re.findall(r"((?:IpBindConfig::\w+\s*\|?\s*)+)=> Ipv6DualStackConfig::(\w+)", body):
        for v in re.findall(r"IpBindConfig::(\w+)", lhs):
            ds.append((v, rhs))
    if len(ds) != 6:
        raise Missing(f"{rel}: into_dual_stack_config arms: {ds}")
    ex["BIND_DUAL"] = ds
    L.append("def BIND_DUAL : List (String × String) := [" + ", ".join(f'("{a}", "{b}")' for a, b in ds) + "]")
    body = need(re.search(r"match dual_stack_config \{(.*?)\n        \}", s, re.S), f"{rel}: bind_socket dual-stack match").group(1)
    sock = []
    for v, act in re.findall(r"Ipv6DualStackConfig::(\w+) => (\{\}|socket\.set_only_v6\((\w+)\)\?)", body)[0:0]:
        pass
    for mm in re.finditer(r"Ipv6DualStackConfig::(\w+) => (\{\}|socket\.set_only_v6\((\w+)\)\?)", body):
        sock.append((mm.group(1), "unset" if mm.group(2) == "{}" else mm.group(3)))
    if len(sock) != 3:
        raise Missing(f"{rel}: bind_socket arms: {sock}")
    ex["BIND_SOCKOPT"] = sock
    L.append("def BIND_SOCKOPT : List (String × String) := [" + ", ".join(f'("{a}", "{b}")' for a, b in sock) + "]")

    # ---- qpack.rs static table + encoder/decoder patterns
    rel = "wtransport-proto/src/qpack.rs"
    s = strip_tests(rd(repo, rel))
    m = need(re.search(r"const STATIC_TABLE: &'static \[\(&'static str, &'static str\); (\d+)\] = &\[(.*?)\n    \];", s, re.S), f"{rel}: STATIC_TABLE")
    n = num(m.group(1))
    rows = re.findall(r'\(\s*"((?:[^"\\]|\\.)*)",\s*"((?:[^"\\]|\\.)*)",?\s*\)', m.group(2))
    if len(rows) != n:
        raise Missing(f"{rel}: STATIC_TABLE has {len(rows)} rows, declared {n}")
    ex["QPACK_STATIC_TABLE_ROWS"] = n
    ex["QPACK_STATIC_TABLE_SAMPLE"] = rows[:3] + rows[-2:]
    Q = ["-- generated by tools/gen_lean.py from wtransport-proto/src/qpack.rs — do not edit",
         "namespace Generated",
         "/-- `StaticTable::STATIC_TABLE` as (name bytes, value bytes) -/",
         "def QPACK_STATIC_TABLE : List (List UInt8 × List UInt8) := ["]
    Q.append(",\n".join(f"  ({lean_str_bytes(rust_str(k))}, {lean_str_bytes(rust_str(v))})" for k, v in rows))
    Q.append("]")

    def lean_string(t):
        return '"' + t.replace("\\", "\\\\").replace('"', '\\"') + '"'
    Q.append("/-- the same rows as text (for comparison with the hand-transcribed RFC 9204 Appendix A) -/")
    Q.append("def QPACK_STATIC_TABLE_STR : List (String × String) := [")
    Q.append(",\n".join(f"  ({lean_string(rust_str(k))}, {lean_string(rust_str(v))})" for k, v in rows))
    Q.append("]")
    # encoder patterns: (flags, N) per representation
    enc = need(re.search(r"pub fn encode<H, K, V>\(headers: H\) -> Box<\[u8\]>(.*?)\n    \}", s, re.S), f"{rel}: Encoder::encode").group(1)
    pre = re.findall(r"Self::encode_integer::<(\d+), _>\((\w+), (\w+), &mut buffer\)", enc)
    strs = re.findall(r"Self::encode_string::<(\d+), _, _>\((\w+), (\w+), &mut buffer\)", enc)
    ex["QPACK_ENC_INTS"] = pre
    ex["QPACK_ENC_STRS"] = strs
    want_pre = [("8", "0", "0"), ("7", "0", "0"), ("6", "0b11", "index"), ("4", "0b0101", "index")]
    want_strs = [("7", "0", "value"), ("3", "0b10", "key"), ("7", "0", "value")]
    if pre != want_pre or strs != want_strs:
        raise Missing(f"{rel}: Encoder::encode representation patterns changed: {pre} {strs}")
    Q.append("def QPACK_ENC_INDEXED_FLAGS : Nat := 0b11\ndef QPACK_ENC_INDEXED_N : Nat := 6")
    Q.append("def QPACK_ENC_NAMEREF_FLAGS : Nat := 0b0101\ndef QPACK_ENC_NAMEREF_N : Nat := 4")
    Q.append("def QPACK_ENC_LITNAME_FLAGS : Nat := 0b10\ndef QPACK_ENC_LITNAME_N : Nat := 3")
    Q.append("def QPACK_ENC_VALUE_N : Nat := 7")
    Q.append("end Generated")

    # ---- httlib-huffman (the version the code links): ENCODE_TABLE and the 1-bit DECODE_TABLE
    hroot = huffman_root(repo)
    enc_src = open(os.path.join(hroot, "src", "encoder", "table.rs"), encoding="utf-8").read()
    m = need(re.search(r"pub const ENCODE_TABLE: \[\(u8, u32\); (\d+)\] = \[(.*?)\n\];", enc_src, re.S), "httlib-huffman: ENCODE_TABLE")
    enc_rows = re.findall(r"\((\d+), (0x[0-9a-fA-F]+)\)", m.group(2))
    if len(enc_rows) != num(m.group(1)) or len(enc_rows) != 257:
        raise Missing(f"httlib-huffman: ENCODE_TABLE rows {len(enc_rows)}")
    dec_src = open(os.path.join(hroot, "src", "decoder", "table1.rs"), encoding="utf-8").read()
    m = need(re.search(r"pub const DECODE_TABLE: \[\[\(Option<u8>, Option<u16>, u8\); 2\]; (\d+)\] = \[(.*)\n\];", dec_src, re.S), "httlib-huffman: DECODE_TABLE")
    cells = re.findall(r"\((Some\((\d+)\)|None), (Some\((\d+)\)|None), (\d+)\)", m.group(2))
    if len(cells) != 2 * num(m.group(1)):
        raise Missing(f"httlib-huffman: DECODE_TABLE cells {len(cells)}")
    ex["HUFFMAN_CRATE"] = os.path.basename(hroot)
    ex["HUFFMAN_ENCODE_ROWS"] = len(enc_rows)
    ex["HUFFMAN_DECODE_STATES"] = len(cells) // 2
    H = ["-- generated by tools/gen_lean.py from the linked httlib-huffman crate — do not edit",
         "namespace Generated",
         "/-- `httlib_huffman::encoder::table::ENCODE_TABLE`: (code length, code) for symbols 0..=256 -/",
         "def HUFFMAN_ENCODE : List (Nat × Nat) := [" + ", ".join(f"({l}, {int(c, 16)})" for l, c in enc_rows) + "]",
         "/-- `httlib_huffman::decoder::table1::DECODE_TABLE`: per state, for bit 0 and bit 1:",
         "(next state, emitted symbol, leftover) with `none` as 65535 -/",
         "def HUFFMAN_DECODE1 : List ((Nat × Nat × Nat) × (Nat × Nat × Nat)) := ["]

    def cell(c):
        nxt = c[1] if c[0] != "None" else "65535"
        asc = c[3] if c[2] != "None" else "65535"
        return f"({nxt}, {asc}, {c[4]})"
    H.append(",\n".join(f"  ({cell(cells[2 * i])}, {cell(cells[2 * i + 1])})" for i in range(len(cells) // 2)))
    H.append("]")
    H.append("end Generated")

    hdr = ["-- generated by tools/gen_lean.py from /repo sources — do not edit", "namespace Generated"]
    os.makedirs(outdir, exist_ok=True)

    def write_if_changed(path, text):
        try:
            with open(path, encoding="utf-8") as f:
                if f.read() == text:
                    return
        except OSError:
            pass
        with open(path, "w", encoding="utf-8") as f:
            f.write(text)

    write_if_changed(os.path.join(outdir, "Consts.lean"), "\n".join(hdr + L + ["end Generated", ""]))
    write_if_changed(os.path.join(outdir, "QpackTable.lean"), "\n".join(Q) + "\n")
    write_if_changed(os.path.join(outdir, "Huffman.lean"), "\n".join(H) + "\n")
    if jsonout:
        with open(jsonout, "w") as f:
            json.dump(ex, f, indent=1, default=str)
    return 0


if __name__ == "__main__":
    try:
        sys.exit(main())
    except Missing as e:
        print(f"gen_lean: extraction anchor missing: {e}", file=sys.stderr)
        sys.exit(3)
