#!/bin/bash
# install a confirmed seeded change into /verif/seeded/<PROP>-<n>/ and remove its worktree
set -eu
id=$1; prop=${id%_*}; n=${id#*_}
src=/tmp/seeded_out/$id; dst=/verif/seeded/$prop-$n
mkdir -p $dst
cp $src/patch.diff $src/demo.rs $src/demo_output.txt $dst/
python3 - "$src/meta.json" "$dst/meta.json" "$prop" <<'PY'
import json, sys
m = json.load(open(sys.argv[1])); m['property'] = sys.argv[3]
m['origin'] = 'fresh sub-agent given only the property text and a scratch worktree; demonstration re-run by tools/confirm_seed.sh (fails with the change, passes without)'
json.dump(m, open(sys.argv[2], 'w'), indent=1)
PY
git -C /repo apply --check $dst/patch.diff
git -C /repo worktree remove --force /tmp/wt_$id
echo installed $dst
