#!/usr/bin/env python3
"""Regenerates MANIFEST.json from tools/propcfg.py (claimed properties) and properties.jsonl."""
import json
import os
import sys

ROOT = os.path.dirname(os.path.dirname(os.path.abspath(__file__)))
sys.path.insert(0, os.path.join(ROOT, "tools"))
import propcfg  # noqa: E402

props = [json.loads(l) for l in open(os.path.join(ROOT, "properties.jsonl"))]
claimed = [p["id"] for p in props if p["id"] in propcfg.PROPS]
hooks_commits = getattr(propcfg, "HOOK_COMMITS", [])
checks = []
for pid in claimed:
    checks.append({
        "property_id": pid,
        "quick_cmd": f"./check {pid} --tier quick",
        "thorough_cmd": f"./check {pid} --tier thorough",
        "evidence_file": f"/verif/evidence/{pid}.json",
        "replay_cmd_template": f"./check {pid} --replay {{path}}",
        "engine": "lean4-proof+correspondence",
        "level_claimed": {"category": "proof", "text": propcfg.LEVEL_TEXT[pid], "design_ref": f"DESIGN.md section 7 ({pid})"},
        "level_note": propcfg.LEVEL_NOTE[pid],
        "technique": "Lean 4 machine-checked proof (model + theorems) tied to the code by translator and model/implementation correspondence",
    })
na = getattr(propcfg, "NOT_APPLICABLE", {})
m = {
    "version": 1,
    "setup_cmd": "./setup.sh",
    "hooks": {"guard": "wtransport_verif",
              "enable": "RUSTFLAGS=\"--cfg wtransport_verif\" (set by ./check and ./setup.sh when building the harness against /repo)",
              "baseline_off_cmd": "cd /repo && cargo nextest run --workspace --no-fail-fast --offline",
              "source_commits": hooks_commits, "add_only": True},
    "engines": [{"name": "lean4-proof+correspondence", "path": "/verif/check", "serves_properties": claimed,
                 "kind_free_text": "Lean 4 theorems (lean/WtVerif/Props) over a hand-written executable model; "
                                   "tools/gen_lean.py regenerates constants/tables from /repo each run; Rust harness "
                                   "(harness/) runs the real code, the compiled Lean driver (lean/Main.lean) the model, on the same cases"}],
    "checks": checks,
    "not_applicable": [{"property_id": p["id"],
                        "reason": na.get(p["id"], "not claimed yet: model and theorems under construction (DESIGN.md section 11 build order)")}
                       for p in props if p["id"] not in claimed],
    "notes": "see DESIGN.md; known findings in known_findings.json",
}
json.dump(m, open(os.path.join(ROOT, "MANIFEST.json"), "w"), indent=1)
print("claimed:", " ".join(claimed))
