#!/usr/bin/env python3
"""Print the brief given to a fresh sub-agent that seeds a property-breaking change.
usage: mutant_prompt.py <ID> <n> [hint]   (the agent sees only the property text and its worktree)"""
import json, sys
pid, n = sys.argv[1], sys.argv[2]
hint = sys.argv[3] if len(sys.argv) > 3 else ""
prop = next(json.loads(l) for l in open('/verif/properties.jsonl') if json.loads(l)['id'] == pid)
wt = f"/tmp/wt_{pid}_{n}"
out = f"/tmp/seeded_out/{pid}_{n}"
print(f"""You play a developer who introduces a realistic regression into a Rust library, so that a verification effort can be tested against it. You have your own scratch git worktree of the project BiagioFesta/wtransport (pure-Rust WebTransport over HTTP/3/QUIC: crates wtransport-proto and wtransport) at {wt}. The sandbox is offline: prefix cargo commands with CARGO_NET_OFFLINE=true and use CARGO_TARGET_DIR={wt}/target; `cargo test --workspace --offline` (run inside {wt}) is the existing test suite (76 tests, all passing).

Here is a semantic property of the library that is supposed to hold:

{json.dumps(prop, indent=1)}

Your task: make ONE realistic change to the library source (not to tests) in your worktree such that
 (1) the workspace still compiles,
 (2) the existing test suite still passes, unedited,
 (3) the property above no longer holds, and
 (4) the breakage needs something specific to manifest — a particular input value, boundary, length, ordering or timing — not a blanket failure that any smoke test would see.
Prefer the kind of mistake a maintainer could plausibly make in a refactor, optimisation or feature: an off-by-one at a boundary, a wrong constant, a dropped or weakened check, a swapped branch, state that is not reset, an early return, a wrong error code, a changed default. Keep the diff small (normally under 15 changed lines). {hint}

Then write a demonstration: a small Rust integration test or example that lives outside the library's src (e.g. a new file under wtransport-proto/tests/ or wtransport/tests/ or examples) and that shows the right behaviour on the original code and the wrong behaviour with your change. Run it both ways (save `git diff` to a private file, then `git apply -R <file>` / `git apply <file>`; do NOT use `git stash`: the stash is shared by every worktree of the repository and other people work in sibling worktrees) and record the outputs.

Deliver into {out}/ (create it):
 - patch.diff — `git diff` of the library change ONLY (it must apply cleanly with `git apply` on the worktree's HEAD and must NOT include the demonstration file);
 - demo.rs — the demonstration source, with a header comment saying where to place it and how to run it;
 - demo_output.txt — its output on the original and on the changed code;
 - meta.json — {{"property": "{pid}", "title": one line, "files_changed": [...], "what_breaks": 2-3 sentences, "trigger": what specific input/schedule makes it manifest, "why_tests_pass": one sentence}}.
Also confirm in your reply that the full existing suite passed with the change applied (give the test count).

Rules: work only inside {wt} and {out}; do not read or write anything under /verif or /repo; do not commit; do not add dependencies (nothing can be downloaded). When done, leave the worktree with the library change applied (demo file may stay) and reply with a short summary.""")
