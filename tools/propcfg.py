"""Per-property configuration of ./check."""

CODEC_TRUST = ["octets varint get/put (modelled, differential-tested)"]

PROPS = {
    "C14": {
        "bins": ["codec"],
        "rule": "exhaustive integers below 2^16 (quick) / 2^20 + stride to 2^30 (thorough), boundaries of every "
                "varint length, random 62-bit values; frames of every kind x payload lengths 0..4096 written, "
                "re-read by the one-shot / buffered / async readers; destination capacities size-1/size/size+1; "
                "non-trivial = a distinct case whose encoding is longer than one byte or whose op is not varint.rt",
        "extracted_keys": ["VARINT_MAX", "VARINT_SIZE_T1", "VARINT_SIZE_T2", "VARINT_SIZE_T4", "FRAME_DATA",
                           "FRAME_HEADERS", "FRAME_SETTINGS", "FRAME_WEBTRANSPORT_STREAM", "FRAME_MAX_PARSE_PAYLOAD",
                           "GREASE_BASE", "GREASE_STEP", "STREAM_WEBTRANSPORT_STREAM", "QSTREAM_MAX"],
        "trusted": CODEC_TRUST,
        "assumptions": ["payload lengths above usize/VarInt::MAX are unreachable (memory)"],
    },
    "C15": {
        "bins": ["codec"],
        "rule": "frame/stream-header elements (valid frames of every kind, unknown and GREASE frames incl. oversize, "
                "invalid session ids, non-minimal varints, random bytes) at every prefix length, each read by the "
                "one-shot, buffered and async reader on the same line; every composition (chunking) of inputs <= 6 "
                "bytes exhaustively, random scripts of give(1..n)/Pending beyond; four typestates on sequences of "
                "1..4 elements; non-trivial = distinct line whose input is non-empty",
        "extracted_keys": ["FRAME_MAX_PARSE_PAYLOAD", "GREASE_BASE", "GREASE_STEP"],
        "trusted": CODEC_TRUST,
        "assumptions": ["AsyncRead sources obey the trait contract (Ok(0) only at end of stream)"],
    },
    "C17": {
        "bins": ["codec"],
        "rule": "all four low-bit classes x boundary magnitudes (every power of two up to 2^62) and random 62-bit "
                "ids for classification and session-id acceptance; quarter ids at and beyond 2^60-1; "
                "non-trivial = distinct line with id >= 4",
        "extracted_keys": ["QSTREAM_MAX", "ERROR_CODES"],
        "trusted": CODEC_TRUST,
        "assumptions": [],
    },
}

LEVEL_TEXT = {
    "C14": "Lean 4 theorems over the executable codec model: round trip, exact size, shortest form and "
           "untouched-too-small-destination for every value / payload / remaining input; tied to /repo by "
           "regenerated constants and by running the real encoders/decoders against the compiled model",
    "C15": "Lean 4 theorem: for EVERY byte string, end-of-source kind and oracle (chunking x Pending pattern) the "
           "async reader's completed run equals the one-shot read (value, error class, bytes consumed; "
           "ImmediateFin iff nothing was available); buffered = one-shot with offset moved only on a value; proper "
           "prefixes need more. Tied to the three real readers by correspondence on identical inputs",
    "C17": "Lean 4 theorems for all 2^62 ids: acceptance iff client-initiated bidirectional, mutual inverses and "
           "ranges (unsafe/debug_assert preconditions), QUIC classification, and the accept-side session filter "
           "never delivering foreign items; tied by regenerated constants and correspondence",
}

LEVEL_NOTE = {
    "C14": "Trusted: Lean kernel (+leanchecker in thorough), axioms propext/Classical.choice/Quot.sound, the translator, "
           "the harness+driver correspondence. Modelled not verified: octets varint get/put. Settings/QPACK/header "
           "round trips: see the theorems listed in the evidence (growing).",
    "C15": "Trusted as C14. The Rust futures are modelled as resumable machines (GetVarint/GetBuffer field for field); "
           "the tie is differential (all prefixes, exhaustive chunkings of short inputs).",
    "C17": "Trusted as C14. The driver half (foreign streams refused with the registered code on a live connection) is "
           "exercised by the e2e correspondence when present in the evidence.",
}


def nontrivial(line):
    parts = line.split("\t")
    op = parts[1] if len(parts) > 1 else ""
    if op == "varint.rt":
        try:
            return int(parts[2]) > 63
        except Exception:
            return False
    return True
