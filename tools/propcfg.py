"""Per-property configuration of ./check."""

CODEC_TRUST = ["octets varint get/put (modelled, differential-tested)"]

PROPS = {
    "C14": {
        "bins": ["codec"],
        "rule": "exhaustive integers below 2^16 (quick) / 2^20 + stride to 2^30 (thorough), boundaries of every "
                "varint length, random 62-bit values; frames of every kind x payload lengths 0..4096 written, "
                "re-read by the one-shot / buffered / async readers; destination capacities size-1/size/size+1; "
                "non-trivial = a distinct case whose encoding is longer than one byte or whose op is not varint.rt",
        "extracted_keys": ["VARINT_MAX", "VARINT_SIZE_T1", "VARINT_SIZE_T2", "VARINT_SIZE_T4", "FRAME_DATA",
                           "FRAME_HEADERS", "FRAME_SETTINGS", "FRAME_WEBTRANSPORT_STREAM", "FRAME_MAX_PARSE_PAYLOAD",
                           "GREASE_BASE", "GREASE_STEP", "STREAM_WEBTRANSPORT_STREAM", "QSTREAM_MAX"],
        "trusted": CODEC_TRUST,
        "assumptions": ["payload lengths above usize/VarInt::MAX are unreachable (memory)"],
    },
}


def nontrivial(line):
    parts = line.split("\t")
    op = parts[1] if len(parts) > 1 else ""
    if op == "varint.rt":
        try:
            return int(parts[2]) > 63
        except Exception:
            return False
    return True
