"""Per-property configuration of ./check."""

CODEC_TRUST = ["octets varint get/put (modelled, differential-tested)"]

PROPS = {
    "C14": {
        "bins": ["codec"],
        "rule": "exhaustive integers below 2^16 (quick) / 2^20 + stride to 2^30 (thorough), boundaries of every "
                "varint length, random 62-bit values; frames of every kind x payload lengths 0..4096 written, "
                "re-read by the one-shot / buffered / async readers; destination capacities size-1/size/size+1; "
                "non-trivial = a distinct case whose encoding is longer than one byte or whose op is not varint.rt",
        "extracted_keys": ["VARINT_MAX", "VARINT_SIZE_T1", "VARINT_SIZE_T2", "VARINT_SIZE_T4", "FRAME_DATA",
                           "FRAME_HEADERS", "FRAME_SETTINGS", "FRAME_WEBTRANSPORT_STREAM", "FRAME_MAX_PARSE_PAYLOAD",
                           "GREASE_BASE", "GREASE_STEP", "STREAM_WEBTRANSPORT_STREAM", "QSTREAM_MAX"],
        "trusted": CODEC_TRUST,
        "assumptions": ["payload lengths above usize/VarInt::MAX are unreachable (memory)"],
    },
    "C15": {
        "bins": ["codec"],
        "rule": "frame/stream-header elements (valid frames of every kind, unknown and GREASE frames incl. oversize, "
                "invalid session ids, non-minimal varints, random bytes) at every prefix length, each read by the "
                "one-shot, buffered and async reader on the same line; every composition (chunking) of inputs <= 6 "
                "bytes exhaustively, random scripts of give(1..n)/Pending beyond; four typestates on sequences of "
                "1..4 elements; non-trivial = distinct line whose input is non-empty",
        "extracted_keys": ["FRAME_MAX_PARSE_PAYLOAD", "GREASE_BASE", "GREASE_STEP"],
        "trusted": CODEC_TRUST,
        "assumptions": ["AsyncRead sources obey the trait contract (Ok(0) only at end of stream)"],
    },
    "C17": {
        "bins": ["codec", "e2e"],
        "rule": "all four low-bit classes x boundary magnitudes (every power of two up to 2^62) and random 62-bit "
                "ids for classification and session-id acceptance; quarter ids at and beyond 2^60-1; "
                "non-trivial = distinct line with id >= 4",
        "extracted_keys": ["QSTREAM_MAX", "ERROR_CODES"],
        "trusted": CODEC_TRUST,
        "assumptions": [],
    },
    "C11": {
        "bins": ["codec"], "profiles": ["debug", "release"],
        "rule": "every byte string up to length 3 for every decoder (sampled by stride on the last length in the "
                "quick tier), hand-built QPACK field sections with every representation, continuation runs of every "
                "length 0..13 for every prefix width (the integer-overflow family), single-byte / truncation / "
                "insertion mutations of valid encodings, settings / capsule / datagram / Huffman payloads; run in a "
                "debug build (overflow checks, debug_assert) and a release build; non-trivial = distinct non-empty input",
        "extracted_keys": ["FRAME_MAX_PARSE_PAYLOAD", "QSTREAM_MAX", "VARINT_MAX", "CAPSULE_MAX_REASON_LEN", "HUFFMAN_CRATE"],
        "trusted": CODEC_TRUST + ["httlib-huffman (modelled concretely from its regenerated tables)"],
        "assumptions": ["the bound proved for the QPACK decoder is on the decoded map (<= 84 x input bytes); Vec capacity "
                        "growth inside the Rust allocator is not modelled"],
    },
    "C12": {
        "bins": ["codec", "e2e"],
        "rule": "all histories up to depth 3 (quick) / 4 (thorough) over {DATA, HEADERS, SETTINGS, WT-signal valid / "
                "invalid id, GREASE, oversize, unknown} plus truncation of the last element at end of stream, on each "
                "of the four typestates, one-shot and async readers, oracle = independent transcription of the RFC "
                "rules (Spec.ruleVerdict); settings payloads; non-trivial = distinct history of length >= 2",
        "extracted_keys": ["ERROR_CODES"],
        "trusted": CODEC_TRUST,
        "assumptions": ["driver half (codes seen on the wire by a raw peer) is in the e2e correspondence when present"],
    },
    "C13": {
        "bins": ["codec", "e2e"],
        "rule": "valid exchanges per typestate with 1-3 unknown / GREASE frames (every varint length of the type, payloads "
                "empty / frame-looking / `01 00` / 4095..5000 bytes) inserted at random frame boundaries: metamorphic "
                "equality of the known-frame sequences (sync and async); settings maps with unknown / GREASE ids "
                "inserted; capsule payloads; unknown and GREASE stream types; non-trivial = distinct line",
        "extracted_keys": ["GREASE_BASE", "GREASE_STEP", "FRAME_MAX_PARSE_PAYLOAD"],
        "trusted": CODEC_TRUST,
        "assumptions": [],
    },
    "C18": {
        "bins": ["codec"],
        "rule": "all 243 present/wrong/missing combinations of the five pseudo-headers with random extra fields, "
                "through SessionRequest::try_from and through the wire form; status strings for every integer "
                "0..65540 (thorough) / stride 7 + boundaries (quick) with signs, spaces, zeros, non-ASCII digits; all "
                "integer constructors 0..700 and width boundaries; reserved and near-reserved names x URLs",
        "extracted_keys": ["STATUS_MIN", "STATUS_MAX", "RESERVED_HEADERS", "REQUEST_TRYFROM_CHECKS"],
        "trusted": CODEC_TRUST + ["url crate (authority/path/query of a parsed URL are inputs of the model)",
                                  "u16::from_str grammar (modelled, differential-tested)"],
        "assumptions": ["a leading '+' or leading zeros accepted by u16::from_str are not violations (value still in range)"],
    },
    "C04": {
        "bins": ["codec", "e2e"],
        "rule": "close capsules over code boundaries x reason lengths 0..1025 (ASCII, multi-byte, invalid UTF-8), "
                "too-short / over-long / truncated / unknown-type capsules, trailing bytes; oracle = independent "
                "RFC 9297 / WebTransport close-capsule parser; non-trivial = distinct payload",
        "extracted_keys": ["CAPSULE_CLOSE_WEBTRANSPORT_SESSION", "CAPSULE_MAX_REASON_LEN", "CAPSULE_CODE_LEN"],
        "trusted": CODEC_TRUST,
        "assumptions": ["a capsule split over two DATA frames is outside the property's quantifier (treated as unknown)",
                        "live half (every waiter sees the stored cause) is in the e2e correspondence when present"],
    },
    "C03": {
        "bins": ["codec", "e2e"],
        "rule": "session ids of every quarter-id encoding length (1,2,4,8 bytes) x payload lengths 0..65600 x "
                "destination capacities around the exact size, written and read back; quarter ids at and beyond "
                "2^60-1; truncated datagrams; non-trivial = distinct line with a non-empty payload or a boundary id",
        "extracted_keys": ["QSTREAM_MAX"],
        "trusted": CODEC_TRUST + ["quinn: send_datagram refuses exactly the QUIC datagrams longer than max_datagram_size()"],
        "assumptions": ["live half (peer limits 0..65535, max_datagram_size under catch_unwind) is in the e2e correspondence when present"],
    },
    "C16": {
        "bins": ["codec", "e2e"],
        "rule": "advertised settings, header maps (static hits, name-only hits, literals, Huffman and plain strings, "
                "prefix-integer boundaries), responses for every status, WT preambles for random session ids, "
                "datagrams: every emitted byte string decoded by the independent Spec decoders; non-trivial = distinct line",
        "extracted_keys": ["ERROR_CODES", "ADVERTISED_SETTINGS", "WEBTRANSPORT_ALPN", "QPACK_STATIC_TABLE_ROWS",
                           "HUFFMAN_CRATE", "FRAME_WEBTRANSPORT_STREAM", "STREAM_WEBTRANSPORT_STREAM"],
        "trusted": CODEC_TRUST + ["Spec/H3.lean (hand transcription of the registries and RFC 9204 Appendix A)"],
        "assumptions": ["Huffman code table of the linked crate is tied to RFC 7541 by Kraft equality + the RFC's examples, "
                        "not by an independent transcription of all 257 rows",
                        "what a running endpoint puts on the wire is recorded by a raw peer in the e2e correspondence when present"],
    },
    "C10": {
        "bins": ["codec", "e2e"],
        "rule": "real verifier with an injected clock on certificates generated per case: validity 0 s, 1 s, 1 d, "
                "14 d - 1 s, 14 d, 14 d + 1 s, 15 d, 400 d; now at both ends +-1 s and mid-window; P-256 / P-384 / "
                "Ed25519; hash sets empty / match / other / many; undecodable DER; non-trivial = distinct line",
        "extracted_keys": ["TLS_SELF_MAX_VALIDITY_DAYS"],
        "trusted": ["x509-parser, rcgen, sha2, rustls (certificate view is an input of the model)"],
        "assumptions": ["default trust policy refusing untrusted roots is rustls/webpki behaviour (wiring proved, behaviour assumed)"],
    },
    "C19": {
        "bins": ["codec"],
        "rule": "digests: all-zero, all-ff, every byte value at a random position, random; both formats formatted, parsed "
                "back, parsed through FromStr; hand-made and mutated malformed texts; identities for SAN lists x validity "
                "settings inspected with x509-parser and verified against their own pin; chains of 0..5 certificates, "
                "keys and single certificates stored and loaded; corrupt PEM/DER; non-trivial = distinct line",
        "extracted_keys": ["TLS_DEFAULT_VALIDITY_DAYS", "TLS_SELF_MAX_VALIDITY_DAYS"],
        "trusted": ["rcgen, pem, rustls-pki-types, x509-parser, tokio::fs (modelled as inputs / checked by correspondence only)"],
        "assumptions": ["bytes-array text round trip for all digests is shown per byte (all 256 values) and on whole "
                        "digests by correspondence; the dotted-hex round trip is a theorem for every digest"],
    },
    "C20": {
        "bins": ["codec", "e2e"],
        "rule": "idle timeouts over the representable range and beyond (0, 1 ms ... 2^62-1, 2^62, 2^62+1, u64::MAX s) on "
                "both builders; bind / ALPN tables regenerated from the source; non-trivial = distinct line",
        "extracted_keys": ["BIND_IP", "BIND_DUAL", "BIND_SOCKOPT", "WEBTRANSPORT_ALPN"],
        "trusted": ["quinn IdleTimeout::try_from, socket2, the OS UDP stack"],
        "assumptions": ["live half (sockets actually bound, negotiated ALPN, idle close, reload_config) is in the e2e "
                        "correspondence when present"],
    },
    "C01": {
        "bins": ["codec", "e2e"],
        "rule": "e2e: real client and server, four stream roles x payload lengths {0,1,2,63,64,16383,16384,65535..65537, "
                "1-3 MiB, random} x write chunkings x read buffer sizes x 1..32 (quick) / ..200 (thorough) concurrent "
                "streams x both runtimes; raw peer sends the preamble cut at every byte position with delays, with 0..3 "
                "GREASE frames; the endpoint's own preamble recorded by a raw peer; codec: header / frame writers against "
                "scripted sinks; non-trivial = distinct line with len > 0",
        "extracted_keys": ["STREAM_WEBTRANSPORT_STREAM", "FRAME_WEBTRANSPORT_STREAM"],
        "trusted": CODEC_TRUST + ["quinn: a QUIC stream is a reliable ordered byte pipe with FIN (packet loss / reordering not exhibited on loopback)"],
        "assumptions": ["per-stream independence in value is by construction of the model (each task is a function of its own stream's bytes)"],
    },
    "C02": {
        "bins": ["codec", "e2e"],
        "rule": "e2e: Endpoint::connect x URLs (localhost / 127.0.0.1 / [::1], paths, queries) x extra header sets (static-table "
                "names, Huffman-shrinking and expanding values, prefix-integer boundary lengths) x five server decisions; raw "
                "server answering 20 status texts; raw client sending 15 malformed / well-formed requests; codec: header maps, "
                "URL parts, responses for every status; non-trivial = distinct line",
        "extracted_keys": ["REQUEST_HEADERS", "STATUS_SUCCESS_LO", "STATUS_SUCCESS_HI", "QPACK_STATIC_TABLE_ROWS"],
        "trusted": CODEC_TRUST + ["url crate (parsed parts are inputs)", "httlib-huffman (modelled concretely)"],
        "assumptions": ["the QPACK field-section round trip is tied by correspondence and Spec decoding of emitted bytes, not yet a theorem"],
    },
    "C05": {
        "bins": ["codec", "e2e"],
        "rule": "codec `ts.all`: control-plane byte sequences (SETTINGS, unknown frames with payloads, GREASE small and "
                "oversize, close capsule, HEADERS) on the control / session / request typestates under every single cut, "
                "pairs of cuts, Pending between the pieces, byte by byte and random scripts, compared with the one-piece "
                "read; e2e `ctrl.cut`: raw peer against the real endpoint; targets {SETTINGS, CONNECT request, response, GREASE frame "
                "on the control stream, GREASE frame on the session stream, close capsule} x cut positions (quick: sampled; "
                "thorough: every position) x events between the pieces {none, datagram, uni stream, bidi stream, frame on the "
                "other critical stream} x both sides x both runtimes, and the whole element with the event fired eight times "
                "within 25 ms right behind it; the expected outcome is the worker model on the whole "
                "bytes; non-trivial = distinct line with cut > 0",
        "extracted_keys": ["FRAME_MAX_PARSE_PAYLOAD", "ERROR_CODES", "CAPSULE_CLOSE_WEBTRANSPORT_SESSION",
                           "CONTROL_READ_PERSISTS_SETTINGS", "CONTROL_READ_PERSISTS_CONNECT",
                           "CONTROL_DECISION_ATOMIC_SETTINGS", "CONTROL_DECISION_ATOMIC_CONNECT"],  # grease_capsule target: see rule
        "trusted": ["tokio::select! drops the futures of the branches that did not complete (language semantics)",
                    "a boxed future stored in a struct keeps its state when the future that was polling it is dropped"],
        "assumptions": ["pieces are separated by 80 ms on loopback, so each piece is one delivery"],
    },
    "C07": {
        "bins": ["e2e"],
        "rule": "e2e `stall`: raw client against the real server; k in {1..8} streams of either kind stalled at {no byte, "
                "first preamble byte, complete preamble then silence, 64 KiB unread} x {stalled first, healthy first, "
                "interleaved} x both runtimes, then 3+3 healthy streams, a datagram and a clean close; the model side is "
                "Handoff.drain on the same arrival order with the capacities and the slot-reservation structure the "
                "translator read from accept_uni/accept_bi; the same with 1..40 datagrams sent first that the application "
                "never asks for (model: WorkerLoop on the same schedule with the await-freedom of the select handlers "
                "read from run_impl), and with the stalled streams held for 1.5 s / 6.5 s (thorough: up to 21 s) before one more "
                "healthy stream of each kind and the close; non-trivial = distinct line",
        "extracted_keys": ["CAP_READY_UNI_WT", "CAP_READY_BI_WT", "CAP_READY_UNI_H3", "CAP_READY_BI_H3",
                           "HANDOFF_RESERVE_FIRST_UNI", "HANDOFF_RESERVE_FIRST_BI", "CAP_READY_DATAGRAMS",
                           "WORKER_HANDLERS_AWAIT_FREE", "DGRAM_SLOT_BEFORE_READ", "WORKER_SELECT_ARMS", "DRIVER_TIMER_FREE"],
        "trusted": ["tokio mpsc (bounded FIFO, Sender::send waits for capacity) and quinn accept_uni/accept_bi (streams "
                    "in id order) are the specification record of the pipeline's parts"],
        "assumptions": ["fair scheduling of spawned tasks (tokio); the application keeps accepting",
                        "QUIC flow control: a stalled stream holds none of the connection-level credit the healthy ones need "
                        "(64 KiB unread is below quinn's default windows)"],
    },
    "C08": {
        "bins": ["e2e"],
        "rule": "e2e `accept.pace`: real client opens n_uni x n_bi in {0,1,50,100,250,(400)} streams with distinct payloads; "
                "the real server accepts with 1..8 tasks per kind, delays 0..5 ms, and (cancel=1) accept futures raced "
                "against random sleeps, dropped and re-issued; counts distinct / duplicate / unknown payloads; abandoned "
                "openings between the session's streams; e2e `late.preamble`: a uni and a bidi stream whose preamble is "
                "completed 1 s / 6.5 s (thorough: up to 21 s) after the stream became visible, next to healthy ones; "
                "non-trivial = distinct line with at least one stream",
        "extracted_keys": ["CAP_READY_UNI_WT", "CAP_READY_BI_WT", "HANDOFF_RESERVE_FIRST_UNI", "HANDOFF_RESERVE_FIRST_BI",
                           "DRIVER_TIMER_FREE", "DRIVER_TIMER_HITS", "DRIVER_SEMAPHORE_FREE"],
        "trusted": ["tokio mpsc Receiver::recv and quinn accept_* are cancel-safe (documented): an accept future dropped "
                    "before completion has taken nothing"],
        "assumptions": ["the peer does not exceed quinn's concurrent-stream limits (it cannot: QUIC enforces them)"],
    },
    "C09": {
        "bins": ["e2e"],
        "rule": "e2e `term`: 13 ways a connection ends (peer capsule / FIN / reset / truncated frame / malformed capsules / "
                "critical-stream closure / QUIC close / local close / all handles dropped) x {idle, calls pending, streams "
                "held} x both sides x both runtimes x codes {0,1,2^32-1,2^62-1,random} x reasons {empty, ascii, 1024 bytes, "
                "multi-byte}; `drop.handles` with 0..3 clones; every pending and later call must complete with an allowed "
                "error; non-trivial = distinct line",
        "extracted_keys": ["ERROR_CODES", "CAPSULE_CLOSE_WEBTRANSPORT_SESSION", "CAPSULE_MAX_REASON_LEN"],
        "trusted": ["quinn: close_reason(), closing the connection when the last handle is dropped, CONNECTION_CLOSE delivery",
                    "tokio watch/mpsc wake-ups"],
        "assumptions": ["promptness is measured with a 3 s bound per call in the harness; the theorem bounds the number of "
                        "worker steps (four), not wall-clock time"],
    },
    "C06": {
        "bins": ["e2e"],
        "rule": "e2e: reset / stop / stop_late (a failing write first, a round trip, then write / stopped / finish again) / "
                "finish x {before data, mid-stream, after finish} x four roles x codes {0,63,64,16383,"
                "16384,2^30-1,2^30,2^62-1,...} x both runtimes; finish.retry against a stalled receiver; read.exact; the "
                "expectations of stop / stop_late are the life-cycle model StreamLife.run on the op's schedule; "
                "non-trivial = distinct line",
        "extracted_keys": ["FINISH_AWAITS_STOPPED", "SEND_WRAPPER_CALLS", "RECV_WRAPPER_CALLS"],
        "trusted": ["quinn stream life-cycle (RESET_STREAM / STOP_SENDING / acknowledgement of FIN; a stop reason stays "
                    "until the stream is released) is the specification record StreamLife.Q, exercised against the real "
                    "quinn by the e2e ops on every run"],
        "assumptions": ["a signal raised after the stream was finished and acknowledged has nothing left to act on"],
    },
}

LEVEL_TEXT = {
    "C14": "Lean 4 theorems over the executable codec model: round trip, exact size, shortest form and "
           "untouched-too-small-destination for every value / payload / remaining input; tied to /repo by "
           "regenerated constants and by running the real encoders/decoders against the compiled model",
    "C15": "Lean 4 theorem: for EVERY byte string, end-of-source kind and oracle (chunking x Pending pattern) the "
           "async reader's completed run equals the one-shot read (value, error class, bytes consumed; "
           "ImmediateFin iff nothing was available); buffered = one-shot with offset moved only on a value; proper "
           "prefixes need more. Tied to the three real readers by correspondence on identical inputs",
    "C17": "Lean 4 theorems for all 2^62 ids: acceptance iff client-initiated bidirectional, mutual inverses and "
           "ranges (unsafe/debug_assert preconditions), QUIC classification, and the accept-side session filter "
           "never delivering foreign items; tied by regenerated constants and correspondence",
    "C11": "Lean 4 theorems: loops terminate because every turn consumes input (termination proofs + progress "
           "lemmas), returned values satisfy their invariants (varints < 2^62, session ids = 0 mod 4, quarter ids <= "
           "2^60-1, frame payloads <= 4096), QPACK prefix integers are exact w.r.t. the unbounded RFC value or an error "
           "(never a trap, never a wrapped value); tied by exhaustive-short + adversarial differential runs in debug "
           "and release builds",
    "C12": "Lean 4 theorems: for every payload / id / following bytes each typestate and each worker task reacts to each "
           "alphabet element with exactly the prescribed registered code (frame_reaction, control / request stream rules), "
           "lifted to histories; tied by exhaustive bounded histories on the real typestates against an independent oracle",
    "C13": "Lean 4 theorems: an unknown or oversize-GREASE element of any type/length/content is consumed whole and "
           "inserting any number of them at frame boundaries changes neither frames, errors nor state on every typestate, "
           "the session stream, the control stream, settings and uni streams; tied by metamorphic differential runs",
    "C18": "Lean 4 theorems: admission iff extended CONNECT/webtransport/https with authority and path, refusal is "
           "stream-local, no constructor yields a status outside 100..599, acceptance iff 2xx, reserved names can never be "
           "overridden, authority/path exact; tied by exhaustive pseudo-header combinations and status strings",
    "C04": "Lean 4 theorems: every 32-bit code and UTF-8 reason <= 1024 is reported exactly (also behind ignorable "
           "elements), clean FIN = (0, empty), abrupt end / malformed capsule = protocol error never app close, QUIC close "
           "codes and reasons are the identity through every mapping arm; tied by capsule differential runs",
    "C03": "Lean 4 theorems: write-then-read returns session and payload byte for byte with the payload view starting "
           "right after the quarter id, distinct sends give distinct datagrams, received payloads are suffixes of the "
           "QUIC datagram, size contract len <= max <-> not TooLarge, and max is absent or header-adjusted for every peer limit; "
           "the driver's datagram path (worker loop + bounded queue) under every schedule keeps every arrived datagram in "
           "exactly one place and in order, so what the application read is a prefix of the arrivals (nothing invented, "
           "duplicated or merged)",
    "C16": "Lean 4 theorems: every registry value, the GREASE formula and all 99 static-table rows regenerated from the "
           "source equal the hand-transcribed specification; advertised settings, control stream, preambles, datagrams and "
           "field-section prefixes emitted by the model are read with the same meaning by the independent Spec decoders",
    "C10": "Lean 4 theorem: accept iff DER ok and now in [notBefore, notAfter] and period <= 14 d and ECDSA P-256 and hash "
           "pinned, for all integers / hash sets / certificates; refusal whenever one condition fails; policy wiring",
    "C19": "Lean 4 theorems: dotted-hex digests round-trip for every byte string, per-byte decimal/hex text facts for all "
           "256 values, wrong lengths rejected, default identity validity = 14 d within the pinning limit",
    "C20": "Lean 4 theorems over the regenerated tables: the six bind presets map to the requested family / address / "
           "v6only action; idle timeout refused iff not representable; ALPN h3",
    "C01": "Lean 4 theorems: the sender's preamble writer puts exactly type/signal + session id on the wire for every sink "
           "behaviour; the receiver's preamble reader consumes exactly the preamble for every chunking and Pending pattern and "
           "leaves every application byte (never swallows, never exposes framing); tied by e2e runs on real endpoints and a raw peer",
    "C02": "Lean 4 theorems on the header maps: the built request is admitted unchanged with exact authority and "
           "path-with-query, extras preserved, reserved names never overridden, verdict a function of the status alone "
           "(all 500 codes), same session id both sides; wire form tied by correspondence (partial until the QPACK round trip is a theorem)",
    "C05": "Lean 4 theorems over the select-loop model: inside one iteration a reader equals the one-shot parse for every "
           "chunking (C15, frames and typestates), and for EVERY list of pieces with or without another event after each "
           "piece the session stream and the control stream are interpreted as the unsegmented bytes (C05_full), given the "
           "structural fact extracted from the source on every run that a frame read in progress is stored outside the "
           "future the select loop drops; tied by the codec cut matrix and the e2e cut x event matrix",
    "C07": "Lean 4 theorems over the hand-off pipeline model, for every schedule and every set of streams stalled inside "
           "their preamble: each internal step decreases a measure (fair completions terminate) and a state where nothing "
           "can happen has no healthy stream undelivered (C07_full), given the structural fact extracted from the source on "
           "every run that no queue slot is taken before the preamble is read; the worker's select loop for every schedule "
           "of datagrams, streams and close with an application that never reads datagrams accepts every stream and "
           "processes the close (C07_unasked_datagrams), given the extracted fact that no select handler awaits; tied by "
           "the e2e stall matrix, on which the same executable models predict every count",
    "C08": "Lean 4 invariant by induction over ALL action sequences (opens, worker accepts, tasks finishing/failing, "
           "application accepts, cancelled accept calls): every opened stream is in exactly one place, delivered at most "
           "once, none invented, queue never above capacity; tied by the e2e acceptance-pace matrix with cancellation",
    "C09": "Lean 4 theorems: the shared result is set once and read consistently for every operation sequence; in every "
           "reachable state of the worker's shutdown a closed queue implies a stored result (no missing result, no panic "
           "arm, four steps to completion); for every cause both kinds of call report the actual cause or a local close "
           "where the library itself shut the transport down; tied by the e2e termination matrix",
    "C06": "Lean 4 theorems: a stop is sticky — after STOP_SENDING(c) every later write / finish / stopped() in any number "
           "and order reports stopped(c) (stop_is_sticky, life-cycle model), given the extracted fact that each wrapper "
           "method invokes only its own quinn operation; every mapping arm of the stream API carries every 62-bit code unchanged, finish succeeds iff "
           "acknowledged, no two outcomes conflated; quinn's life-cycle is the trusted record; tied by e2e signal matrix",
}

LEVEL_NOTE = {
    "C14": "Trusted: Lean kernel (+leanchecker in thorough), axioms propext/Classical.choice/Quot.sound, the translator, "
           "the harness+driver correspondence. Modelled not verified: octets varint get/put. Settings/QPACK/header "
           "round trips: see the theorems listed in the evidence (growing).",
    "C15": "Trusted as C14. The Rust futures are modelled as resumable machines (GetVarint/GetBuffer field for field); "
           "the tie is differential (all prefixes, exhaustive chunkings of short inputs).",
    "C17": "Trusted as C14. The driver half (foreign streams refused with the registered code on a live connection) is "
           "exercised by the e2e correspondence when present in the evidence.",
    "C11": "Trusted as C14. Machine arithmetic is modelled for the QPACK integer decoder (the only overflow-prone code); "
           "memory safety of the unsafe constructors is not proved, their preconditions are.",
    "C12": "Trusted as C14. Spec/H3.lean is a hand transcription of the RFC rules (the oracle).",
    "C13": "Trusted as C14.",
    "C18": "Trusted as C14; url crate and u16::from_str modelled.",
    "C04": "Trusted as C14; quinn's close_reason() is an input of the model.",
    "C03": "Trusted as C14; quinn's datagram size test is an assumed law named in the theorem.",
    "C16": "Trusted as C14 plus the hand transcription in Spec/H3.lean.",
    "C10": "Certificate parsing, hashing and signature checks are external (x509-parser, sha2, rustls): the model takes "
           "their answers as the certificate view.",
    "C19": "rcgen / pem / tokio::fs are exercised by correspondence only (partial).",
    "C20": "OS / quinn apply the settings (partial); live half via e2e.",
    "C01": "Trusted as C14 plus quinn's stream transport (partial: loss/reordering inside quinn not exhibited).",
    "C02": "Trusted as C14 plus url, httlib-huffman; partial as stated.",
    "C05": "Trusted as C14 plus the semantics of tokio::select! (losing branches are dropped) and of a stored boxed future "
           "(polling it again resumes it). Which branch the runtime polls first is not modelled; with the reads persisted it "
           "no longer matters.",
    "C07": "Trusted as C14 plus tokio's mpsc/scheduler and quinn's accept order (modelled as the pipeline's steps). "
           "Partial: the model has no packets, so loss/delay inside quinn and flow-control starvation are not exhibited; "
           "the e2e runs cover them only as far as loopback does.",
    "C08": "Trusted as C07. Cancel-safety of recv()/accept_*() is an assumption named in the evidence.",
    "C09": "Trusted as C14 plus quinn close semantics. Partial: promptness is a step bound in the model and a 3 s bound in "
           "the harness.",
    "C06": "quinn's stream life-cycle trusted (partial).",
}


def nontrivial(line):
    parts = line.split("\t")
    op = parts[1] if len(parts) > 1 else ""
    if op == "varint.rt":
        try:
            return int(parts[2]) > 63
        except Exception:
            return False
    return True
