#!/usr/bin/env python3
"""Run the registered checks against the seeded property-breaking changes kept in /verif/seeded/.

usage: seeded.py [--tier quick|thorough] [--all-props] [<seeded-id> ...]

For each /verif/seeded/<sid>/ : `git -C /repo apply patch.diff`, run the check of the property
the change was written against (with --all-props: every claimed property), record which checks
reported a VIOLATION, then `git -C /repo checkout -- .`.  The evidence directory is saved and
restored around the run, so committed evidence always describes the unchanged tree.
Results go to /verif/seeded/<sid>/result.json and a table to stdout.
"""
import json, os, shutil, subprocess, sys, tempfile, time

V = '/verif'
def sh(cmd, **kw):
    return subprocess.run(cmd, shell=True, capture_output=True, text=True, **kw)

def main():
    args = sys.argv[1:]
    tier = 'quick'
    allp = False
    ids = []
    while args:
        a = args.pop(0)
        if a == '--tier': tier = args.pop(0)
        elif a == '--all-props': allp = True
        else: ids.append(a)
    if not ids:
        ids = sorted(d for d in os.listdir(f'{V}/seeded') if os.path.exists(f'{V}/seeded/{d}/patch.diff'))
    if sh('git -C /repo status --porcelain --untracked-files=no').stdout.strip():
        sys.exit('refusing: /repo working tree is not clean')
    manifest = json.load(open(f'{V}/MANIFEST.json'))
    claimed = [c['property_id'] for c in manifest['checks']]
    save = tempfile.mkdtemp(prefix='evsave_', dir=f'{V}/scratch')
    shutil.copytree(f'{V}/evidence', f'{save}/evidence')
    rows = []
    try:
        for sid in ids:
            d = f'{V}/seeded/{sid}'
            meta = json.load(open(f'{d}/meta.json'))
            prop = meta['property']
            props = claimed if allp else [prop]
            r = sh(f'git -C /repo apply {d}/patch.diff')
            if r.returncode != 0:
                rows.append((sid, prop, 'patch-does-not-apply', r.stderr.strip()[:200])); continue
            res = {}
            try:
                for p in props:
                    if p not in claimed:
                        res[p] = {'rc': None, 'note': 'property not claimed'}; continue
                    t0 = time.time()
                    c = sh(f'{V}/check {p} --tier {tier}', cwd=V)
                    viol = [l for l in c.stdout.splitlines() if l.startswith('VIOLATION')]
                    res[p] = {'rc': c.returncode, 'violation_lines': viol[:5], 'wall_s': round(time.time() - t0, 1),
                              'tail': c.stdout.strip().splitlines()[-3:]}
                    if viol:
                        rp = viol[0].split('replay=')[1].split()[0]
                        if os.path.exists(rp):
                            shutil.copy(rp, f'{d}/replay_{p}.json')
            finally:
                sh('git -C /repo checkout -- .')
            caught = [p for p, v in res.items() if v.get('rc') == 1 and v.get('violation_lines')]
            json.dump({'seeded': sid, 'written_against': prop, 'tier': tier, 'caught_by': caught, 'checks': res},
                      open(f'{d}/result.json', 'w'), indent=1)
            rows.append((sid, prop, 'CAUGHT by ' + ','.join(caught) if caught else 'MISSED',
                         (res.get(prop, {}).get('violation_lines') or [''])[0][:160]))
    finally:
        sh('git -C /repo checkout -- .')
        shutil.rmtree(f'{V}/evidence'); shutil.copytree(f'{save}/evidence', f'{V}/evidence'); shutil.rmtree(save)
    for r in rows:
        print(' | '.join(r))

main()
